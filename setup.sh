#!/bin/sh
# Offline setup: build the native probe/replay binary and warm the Kani dependency cache.
set -e
cd /verif
mkdir -p .cache evidence replays
export CARGO_NET_OFFLINE=true
(cd replay && CARGO_TARGET_DIR=/verif/.cache/replay-target cargo build --release --offline -q) || echo "setup: probe build failed (checks will retry)"
python3-vt - <<'PY' || echo "setup: kani warm-up failed (checks will retry)"
import sys
sys.path.insert(0, '/verif/tools')
import krun, props as P
s = [{'set': 'warm', 'jobs': 2, 'timeout': 900, 'harnesses': [P.H('c02_direct_n1', 'piecewise')]}]
r = krun.run_sets(s, '/repo', 'warm', 'quick')
print('kani warm-up:', r[0]['status'])
PY
verus --version >/dev/null
echo setup done
