// Kani harnesses attached as a child module of crate::log_poly.
#![allow(dead_code, unused_imports)]
use super::*;

fn fin_any() -> f64 { let v: f64 = kani::any(); kani::assume(v.is_finite()); v }
/// integer-valued doubles in [-100, 100] (exact arithmetic, distinguishable lanes, small float circuits)
fn small_any() -> f64 { let v: i8 = kani::any(); kani::assume(v >= -100 && v <= 100); v as f64 }
fn bits_eq(a: f64, b: f64) -> bool { a.to_bits() == b.to_bits() || (a.is_nan() && b.is_nan()) }

// Recording piece for the generic wrappers Log<T> / IntOfLog<T> (parametricity: they can only forward to T's operators).
#[derive(Clone, Copy, Debug, PartialEq)]
pub struct WTag { pub id: u32, pub muls: u32, pub negs: u32, pub adds: u32, pub trans: u32, pub scalar: u64, pub other: u32 }
const W0: WTag = WTag { id: 7, muls: 0, negs: 0, adds: 0, trans: 0, scalar: 0, other: 0 };
impl Mul<f64> for WTag { type Output = WTag; fn mul(self, r: f64) -> WTag { WTag { muls: self.muls + 1, scalar: r.to_bits(), ..self } } }
impl MulAssign<f64> for WTag { fn mul_assign(&mut self, r: f64) { self.muls += 1; self.scalar = r.to_bits(); } }
impl Neg for WTag { type Output = WTag; fn neg(self) -> WTag { WTag { negs: self.negs + 1, ..self } } }
impl Add for WTag { type Output = WTag; fn add(self, o: WTag) -> WTag { WTag { adds: self.adds + 1, other: o.id, ..self } } }
impl Translate for WTag { fn translate(&mut self, v: f64) { self.trans += 1; self.scalar = v.to_bits(); } }

/// Log<T>: `*`, `*=`, translate forward to the wrapped function exactly once (loop-free: complete).
#[kani::proof]
fn c14_log_wrapper() {
    let s = fin_any();
    let r = Log(W0) * s;
    assert!(r.0 == WTag { muls: 1, scalar: s.to_bits(), ..W0 }, "[spec] Log * s scales the wrapped function once with s");
    let mut m = Log(W0);
    m *= s;
    assert!(m.0 == WTag { muls: 1, scalar: s.to_bits(), ..W0 }, "[spec] Log *= s equals Log * s");
    let mut t = Log(W0);
    t.translate(s);
    assert!(t.0 == WTag { trans: 1, scalar: s.to_bits(), ..W0 }, "[spec] Log::translate translates the wrapped function once");
    kani::cover!(true, "[cover] reachable");
}

/// IntOfLog<T>: additive constant and wrapped function both receive the operation (products with concrete scalars).
#[kani::proof]
#[kani::unwind(6)]
fn c14_intoflog_wrapper() {
    let k = small_any();
    let k2 = small_any();
    let f = IntOfLog { k, poly: W0 };
    let g = IntOfLog { k: k2, poly: WTag { id: 9, ..W0 } };
    let a = f + g;
    assert!(bits_eq(a.k, k + k2), "[spec] IntOfLog + IntOfLog adds the additive constants (one IEEE sum)");
    assert!(a.poly == WTag { adds: 1, other: 9, ..W0 }, "[spec] ... and adds the wrapped functions once");
    let n = -f;
    assert!(bits_eq(n.k, -k) && n.poly == WTag { negs: 1, ..W0 }, "[spec] -IntOfLog negates the constant and the wrapped function");
    let v = small_any();
    let mut t = f;
    t.translate(v);
    assert!(bits_eq(t.k, k + v) && t.poly == W0, "[spec] IntOfLog::translate adds c to the additive constant only");
    const S: [f64; 4] = [2.0, -1.0, 0.5, 0.0];
    let mut i = 0;
    while i < S.len() {
        let s = S[i]; // concrete in every unwound iteration
        let m = f * s;
        assert!(bits_eq(m.k, s * k), "[spec] IntOfLog * s scales the additive constant");
        assert!(m.poly == WTag { muls: 1, scalar: s.to_bits(), ..W0 }, "[spec] IntOfLog * s scales the wrapped function once");
        let mut ma = f;
        ma *= s;
        assert!(bits_eq(ma.k, m.k) && ma.poly == m.poly, "[spec] IntOfLog *= s gives exactly the result of IntOfLog * s");
        i += 1;
    }
    kani::cover!(true, "[cover] reachable");
}

/// IntOfLogPoly4 + / - by value and by reference (additions over 6 numbers; the zip loop has 4 fixed lanes: complete).
#[kani::proof]
#[kani::unwind(6)]
fn c14_quartic_add_sub() {
    let a = IntOfLogPoly4 { k: small_any(), coeffs: [small_any(), small_any(), small_any(), small_any()], u: small_any() };
    let b = IntOfLogPoly4 { k: small_any(), coeffs: [small_any(), small_any(), small_any(), small_any()], u: small_any() };
    let s = a + b;
    let d = a - b;
    assert!(bits_eq(s.k, a.k + b.k) && bits_eq(s.u, a.u + b.u), "[spec] + adds k and u");
    assert!(bits_eq(d.k, a.k - b.k) && bits_eq(d.u, a.u - b.u), "[spec] - subtracts k and u");
    let mut i = 0;
    while i < 4 {
        assert!(bits_eq(s.coeffs[i], a.coeffs[i] + b.coeffs[i]), "[spec] + adds every coefficient lane-wise");
        assert!(bits_eq(d.coeffs[i], a.coeffs[i] - b.coeffs[i]), "[spec] - subtracts every coefficient lane-wise");
        i += 1;
    }
    let sr = &a + &b;
    let dr = &a - &b;
    assert!(bits_eq(sr.k, s.k) && bits_eq(sr.u, s.u) && bits_eq(dr.k, d.k) && bits_eq(dr.u, d.u), "[spec] by-reference forms equal the by-value forms");
    let mut i = 0;
    while i < 4 {
        assert!(bits_eq(sr.coeffs[i], s.coeffs[i]) && bits_eq(dr.coeffs[i], d.coeffs[i]), "[spec] by-reference forms equal the by-value forms");
        i += 1;
    }
    let v = small_any();
    let mut t = a;
    t.translate(v);
    assert!(bits_eq(t.k, a.k + v) && bits_eq(t.u, a.u), "[spec] translate adds c to k only");
    kani::cover!(true, "[cover] reachable");
}

// ------------------------------------------------------------------------------------------- C17: approximate equality
const TOLS: [f64; 2] = [0.0, 1.0];
/// (epsilon, max_relative) pairs: distinct so that swapped tolerances are visible
const RELS: [(f64, f64); 2] = [(0.0, 0.5), (1.0, 0.0)];
/// integer-valued doubles in [-8, 8] for the approx harnesses (float comparisons against products are costly in CBMC)
fn tiny_any() -> f64 { let v: i8 = kani::any(); kani::assume(v >= -8 && v <= 8); v as f64 }
#[kani::proof]
#[kani::unwind(8)]
fn c17_log_wrappers() {
    let (a0, a1, b0, b1, ka, kb) = (tiny_any(), tiny_any(), tiny_any(), tiny_any(), tiny_any(), tiny_any());
    let (pa, pb) = (Poly1([a0, a1]), Poly1([b0, b1]));
    let fa = IntOfLog { k: ka, poly: pa };
    let fb = IntOfLog { k: kb, poly: pb };
    let mut ei = 0;
    while ei < TOLS.len() {
        let eps = TOLS[ei];
        let lanes = a0.abs_diff_eq(&b0, eps) && a1.abs_diff_eq(&b1, eps);
        assert!(Log(pa).abs_diff_eq(&Log(pb), eps) == lanes, "[spec] Log: abs_diff_eq is number-by-number");
        assert!(fa.abs_diff_eq(&fb, eps) == (lanes && ka.abs_diff_eq(&kb, eps)), "[spec] IntOfLog: additive constant and every coefficient");
        ei += 1;
    }
    let mut ri = 0;
    while ri < RELS.len() {
        let (eps, mr) = RELS[ri];
        let lr = a0.relative_eq(&b0, eps, mr) && a1.relative_eq(&b1, eps, mr);
        assert!(Log(pa).relative_eq(&Log(pb), eps, mr) == lr, "[spec] Log: relative_eq is number-by-number");
        assert!(fa.relative_eq(&fb, eps, mr) == (lr && ka.relative_eq(&kb, eps, mr)), "[spec] IntOfLog: relative_eq is number-by-number");
        ri += 1;
    }
    kani::cover!(true, "[cover] reachable");
}
#[kani::proof]
#[kani::unwind(8)]
fn c17_quartic() {
    let a = IntOfLogPoly4 { k: tiny_any(), coeffs: [tiny_any(), tiny_any(), tiny_any(), tiny_any()], u: tiny_any() };
    let b = IntOfLogPoly4 { k: tiny_any(), coeffs: [tiny_any(), tiny_any(), tiny_any(), tiny_any()], u: tiny_any() };
    let mut ei = 0;
    while ei < TOLS.len() {
        let eps = TOLS[ei];
        let mut want = a.k.abs_diff_eq(&b.k, eps) && a.u.abs_diff_eq(&b.u, eps);
        let mut i = 0;
        while i < 4 { want = want && a.coeffs[i].abs_diff_eq(&b.coeffs[i], eps); i += 1; }
        assert!(a.abs_diff_eq(&b, eps) == want, "[spec] IntOfLogPoly4: abs_diff_eq over k, c1..c4, u");
        ei += 1;
    }
    let mut ri = 0;
    while ri < RELS.len() {
        let (eps, mr) = RELS[ri];
        let mut wr = a.k.relative_eq(&b.k, eps, mr) && a.u.relative_eq(&b.u, eps, mr);
        let mut i = 0;
        while i < 4 { wr = wr && a.coeffs[i].relative_eq(&b.coeffs[i], eps, mr); i += 1; }
        assert!(a.relative_eq(&b, eps, mr) == wr, "[spec] IntOfLogPoly4: relative_eq over k, c1..c4, u with the same tolerances");
        ri += 1;
    }
    kani::cover!(true, "[cover] reachable");
}

/// the same with ANY finite numbers (two adder circuits per lane are compared: minutes with kissat) — thorough tier
#[kani::proof]
#[kani::unwind(6)]
fn c14_quartic_add_sub_full() {
    let a = IntOfLogPoly4 { k: fin_any(), coeffs: [fin_any(), fin_any(), fin_any(), fin_any()], u: fin_any() };
    let b = IntOfLogPoly4 { k: fin_any(), coeffs: [fin_any(), fin_any(), fin_any(), fin_any()], u: fin_any() };
    let s = a + b;
    let d = a - b;
    assert!(bits_eq(s.k, a.k + b.k) && bits_eq(s.u, a.u + b.u), "[spec] + adds k and u (full range)");
    assert!(bits_eq(d.k, a.k - b.k) && bits_eq(d.u, a.u - b.u), "[spec] - subtracts k and u (full range)");
    let mut i = 0;
    while i < 4 {
        assert!(bits_eq(s.coeffs[i], a.coeffs[i] + b.coeffs[i]), "[spec] + adds every coefficient lane-wise (full range)");
        assert!(bits_eq(d.coeffs[i], a.coeffs[i] - b.coeffs[i]), "[spec] - subtracts every coefficient lane-wise (full range)");
        i += 1;
    }
    kani::cover!(true, "[cover] reachable");
}
