// Kani harnesses attached as a child module of crate::linear.  The numeric kernel `segment` is under a Verus contract
// (unit u_linear); here it is replaced by recording stubs so that the wiring of `linear` is checked with full-range
// symbolic knots and no float arithmetic at all.
#![allow(dead_code, unused_imports)]
use super::*;

fn fin_any() -> f64 { let v: f64 = kani::any(); kani::assume(v.is_finite()); v }

/// records the LEFT knot it was given (and the right abscissa as `end`)
fn rec_segment_left(knot0: Knot, knot1: Knot) -> Segment<Poly1> {
    Segment { end: knot1.x, poly: Poly1([knot0.x, knot0.y]) }
}
/// records the RIGHT knot it was given (and the left abscissa as `end`)
fn rec_segment_right(knot0: Knot, knot1: Knot) -> Segment<Poly1> {
    Segment { end: knot0.x, poly: Poly1([knot1.x, knot1.y]) }
}

fn c06_wiring<const N: usize>(right: bool) {
    let mut knots = [Knot { x: 0.0, y: 0.0 }; N];
    let mut i = 0;
    while i < N { knots[i] = Knot { x: fin_any(), y: fin_any() }; i += 1; }
    let r = linear(&knots);
    assert!(r.segments.len() == N - 1, "[spec] one segment per consecutive knot pair");
    // forced knots: abscissa = running maximum, ordinate verbatim
    let mut fx = knots[0].x;
    let mut fy = knots[0].y;
    let mut i = 0;
    while i + 1 < N {
        let cx = knots[i + 1].x;
        let nx = if cx > fx { cx } else { fx };
        let ny = knots[i + 1].y;
        let s = r.segments[i];
        if right {
            assert!(s.poly.0[0] == nx && s.poly.0[1].to_bits() == ny.to_bits(), "[spec] segment i ends at the knot whose abscissa is the running maximum and whose ordinate is knot i+1's");
            assert!(s.end == fx, "[spec] segment i starts at the previous forced knot");
        } else {
            assert!(s.poly.0[0] == fx && s.poly.0[1].to_bits() == fy.to_bits(), "[spec] segment i starts at the previous forced knot");
            assert!(s.end == nx, "[spec] the end of segment i is the running maximum of the abscissae");
        }
        fx = nx;
        fy = ny;
        i += 1;
    }
    kani::cover!(true, "[cover] reachable");
}
#[kani::proof] #[kani::stub(segment, rec_segment_left)] #[kani::unwind(8)] fn c06_wiring_left_n2() { c06_wiring::<2>(false) }
#[kani::proof] #[kani::stub(segment, rec_segment_left)] #[kani::unwind(8)] fn c06_wiring_left_n3() { c06_wiring::<3>(false) }
#[kani::proof] #[kani::stub(segment, rec_segment_left)] #[kani::unwind(8)] fn c06_wiring_left_n4() { c06_wiring::<4>(false) }
#[kani::proof] #[kani::stub(segment, rec_segment_left)] #[kani::unwind(8)] fn c06_wiring_left_n5() { c06_wiring::<5>(false) }
#[kani::proof] #[kani::stub(segment, rec_segment_right)] #[kani::unwind(8)] fn c06_wiring_right_n2() { c06_wiring::<2>(true) }
#[kani::proof] #[kani::stub(segment, rec_segment_right)] #[kani::unwind(8)] fn c06_wiring_right_n3() { c06_wiring::<3>(true) }
#[kani::proof] #[kani::stub(segment, rec_segment_right)] #[kani::unwind(8)] fn c06_wiring_right_n4() { c06_wiring::<4>(true) }
#[kani::proof] #[kani::stub(segment, rec_segment_right)] #[kani::unwind(8)] fn c06_wiring_right_n5() { c06_wiring::<5>(true) }
// long knot lists
#[kani::proof] #[kani::stub(segment, rec_segment_left)] #[kani::unwind(15)] fn c06_wiring_left_n12() { c06_wiring::<12>(false) }
#[kani::proof] #[kani::stub(segment, rec_segment_right)] #[kani::unwind(15)] fn c06_wiring_right_n12() { c06_wiring::<12>(true) }
#[kani::proof] #[kani::stub(segment, rec_segment_left)] #[kani::unwind(27)] fn c06_wiring_left_n24() { c06_wiring::<24>(false) }
#[kani::proof] #[kani::stub(segment, rec_segment_right)] #[kani::unwind(27)] fn c06_wiring_right_n24() { c06_wiring::<24>(true) }

#[kani::proof]
#[kani::unwind(4)]
#[kani::should_panic]
fn c16_linear_one_knot_mustpanic() {
    let knots = [Knot { x: fin_any(), y: fin_any() }];
    let _ = linear(&knots);
}
#[kani::proof]
#[kani::unwind(4)]
#[kani::should_panic]
fn c16_linear_no_knots_mustpanic() {
    let knots: [Knot; 0] = [];
    let _ = linear(&knots);
}
