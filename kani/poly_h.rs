// Kani harnesses attached as a child module of crate::poly.
#![allow(dead_code, unused_imports)]
use super::*;

fn fin_any() -> f64 { let v: f64 = kani::any(); kani::assume(v.is_finite()); v }
/// integer-valued doubles in [-100, 100]: all sums/products below are exact, every lane is distinguishable, and CBMC's float
/// circuits stay small.  (BOUND: the lane-wise code paths do not depend on the values.)
fn small_any() -> f64 { let v: i8 = kani::any(); kani::assume(v >= -100 && v <= 100); v as f64 }
fn bits_eq(a: f64, b: f64) -> bool { a.to_bits() == b.to_bits() || (a.is_nan() && b.is_nan()) }

// The scalar set for products: CBMC cannot multiply two symbolic doubles, so scalars are concrete (BOUNDED in the scalar).
const SCALARS: [f64; 5] = [0.0, -1.0, 2.0, 0.5, 3.0];

// ------------------------------------------------------------------------------------------- C14: translate
macro_rules! c14_translate_arr {
    ($name:ident, $t:ident, $n:expr) => {
        #[kani::proof]
        fn $name() {
            let mut c = [0.0f64; $n];
            let mut i = 0;
            while i < $n { c[i] = small_any(); i += 1; }
            let v = small_any();
            let mut p = $t(c);
            p.translate(v);
            assert!(bits_eq(p.0[0], c[0] + v), "[spec] translate adds c to the additive constant (one IEEE sum)");
            let mut i = 1;
            while i < $n { assert!(p.0[i].to_bits() == c[i].to_bits(), "[spec] translate leaves every other coefficient bit-identical"); i += 1; }
            kani::cover!(true, "[cover] reachable");
        }
    };
}
c14_translate_arr!(c14_translate_poly1, Poly1, 2);
c14_translate_arr!(c14_translate_poly2, Poly2, 3);
c14_translate_arr!(c14_translate_poly3, Poly3, 4);
c14_translate_arr!(c14_translate_poly4, Poly4, 5);
c14_translate_arr!(c14_translate_poly5, Poly5, 6);
c14_translate_arr!(c14_translate_poly6, Poly6, 7);
c14_translate_arr!(c14_translate_poly7, Poly7, 8);
c14_translate_arr!(c14_translate_poly8, Poly8, 9);
#[kani::proof]
fn c14_translate_poly0() {
    let c = fin_any();
    let v = fin_any();
    let mut p = Poly0(c);
    p.translate(v);
    assert!(bits_eq(p.0, c + v), "[spec] translate adds c to the constant");
    kani::cover!(true, "[cover] reachable");
}
fn c14_translate_polyn<const N: usize>() {
    let mut c = [0.0f64; N];
    let mut i = 0;
    while i < N { c[i] = fin_any(); i += 1; }
    let v = fin_any();
    let mut p = PolyN(c.to_vec());
    p.translate(v);
    if N == 0 {
        assert!(p.0.len() == 1 && p.0[0].to_bits() == v.to_bits(), "[spec] an empty dynamic-degree polynomial becomes the constant c");
    } else {
        assert!(p.0.len() == N, "[spec] translate does not change the length");
        assert!(bits_eq(p.0[0], c[0] + v), "[spec] translate adds c to the additive constant");
        let mut i = 1;
        while i < N { assert!(p.0[i].to_bits() == c[i].to_bits(), "[spec] other coefficients unchanged"); i += 1; }
    }
    kani::cover!(true, "[cover] reachable");
}
#[kani::proof] #[kani::unwind(6)] fn c14_translate_polyn_0() { c14_translate_polyn::<0>() }
#[kani::proof] #[kani::unwind(6)] fn c14_translate_polyn_1() { c14_translate_polyn::<1>() }
#[kani::proof] #[kani::unwind(6)] fn c14_translate_polyn_3() { c14_translate_polyn::<3>() }

// ------------------------------------------------------------------------------------------- C14: `*=` equals `*`
macro_rules! c14_mulassign_arr {
    ($name:ident, $t:ident, $n:expr) => {
        #[kani::proof]
        #[kani::unwind(12)]
        fn $name() {
            let mut c = [0.0f64; $n];
            let mut i = 0;
            while i < $n { c[i] = small_any(); i += 1; }
            // the loop is unwound, so `s` is a compile-time constant in every iteration
            let mut si = 0;
            while si < SCALARS.len() {
                let s = SCALARS[si];
                let a = $t(c) * s;
                let mut b = $t(c);
                b *= s;
                let mut i = 0;
                while i < $n {
                    assert!(bits_eq(a.0[i], b.0[i]), "[spec] `*=` gives exactly the result of `*`");
                    assert!(bits_eq(a.0[i], c[i] * s), "[spec] every coefficient is the correctly rounded product s*c");
                    i += 1;
                }
                si += 1;
            }
            kani::cover!(true, "[cover] reachable");
        }
    };
}
c14_mulassign_arr!(c14_mulassign_poly1, Poly1, 2);
c14_mulassign_arr!(c14_mulassign_poly2, Poly2, 3);
c14_mulassign_arr!(c14_mulassign_poly3, Poly3, 4);
c14_mulassign_arr!(c14_mulassign_poly4, Poly4, 5);
c14_mulassign_arr!(c14_mulassign_poly5, Poly5, 6);
c14_mulassign_arr!(c14_mulassign_poly6, Poly6, 7);
c14_mulassign_arr!(c14_mulassign_poly7, Poly7, 8);
c14_mulassign_arr!(c14_mulassign_poly8, Poly8, 9);
#[kani::proof]
#[kani::unwind(12)]
fn c14_mulassign_poly0() {
    let c = fin_any();
    let mut si = 0;
    while si < SCALARS.len() {
        let s = SCALARS[si];
        let a = Poly0(c) * s;
        let mut b = Poly0(c);
        b *= s;
        assert!(bits_eq(a.0, b.0), "[spec] `*=` gives exactly the result of `*`");
        assert!(bits_eq(a.0, c * s), "[spec] correctly rounded product");
        si += 1;
    }
    kani::cover!(true, "[cover] reachable");
}

// ------------------------------------------------------------------------------------------- C01: PolyN::evaluate
// The fold over the reversed coefficients is the Horner recursion h(i) = h(i+1).mul_add(x, c[i]), h(n-1) = c[n-1];
// empty = 0.0.  x ranges over a concrete set (BOUNDED); coefficients are symbolic.
const XS: [f64; 4] = [0.0, 1.0, -1.0, 2.0];
fn c01_polyn<const N: usize>() { c01_polyn_xs::<N>(XS.len()) }
/// the first `nx` arguments of XS = [0, 1, -1, 2]: with nx = 3 no product needs a real multiplier (long vectors stay cheap)
fn c01_polyn_xs<const N: usize>(nx: usize) {
    let mut c = [0.0f64; N];
    let mut i = 0;
    while i < N { c[i] = small_any(); i += 1; }
    let p = PolyN(c.to_vec());
    let mut xi = 0;
    while xi < nx {
        let x = XS[xi]; // concrete in every unwound iteration
        let got = p.evaluate(x);
        if N == 0 {
            assert!(got.to_bits() == 0.0f64.to_bits(), "[spec] the empty polynomial evaluates to 0");
        } else {
            let mut acc = c[N - 1];
            let mut i = N - 1;
            while i > 0 {
                i -= 1;
                acc = acc.mul_add(x, c[i]);
            }
            assert!(bits_eq(got, acc), "[spec] PolyN::evaluate is the Horner recursion over the coefficients, highest first");
        }
        xi += 1;
    }
    kani::cover!(true, "[cover] reachable");
}
#[kani::proof] #[kani::unwind(15)] fn c01_polyn_0() { c01_polyn::<0>() }
#[kani::proof] #[kani::unwind(15)] fn c01_polyn_1() { c01_polyn::<1>() }
#[kani::proof] #[kani::unwind(15)] fn c01_polyn_2() { c01_polyn::<2>() }
#[kani::proof] #[kani::unwind(15)] fn c01_polyn_3() { c01_polyn::<3>() }
#[kani::proof] #[kani::unwind(15)] fn c01_polyn_4() { c01_polyn::<4>() }
#[kani::proof] #[kani::unwind(15)] fn c01_polyn_5() { c01_polyn::<5>() }
#[kani::proof] #[kani::unwind(15)] fn c01_polyn_6() { c01_polyn::<6>() }
#[kani::proof] #[kani::unwind(15)] fn c01_polyn_7() { c01_polyn::<7>() }
#[kani::proof] #[kani::unwind(15)] fn c01_polyn_8() { c01_polyn::<8>() }
#[kani::proof] #[kani::unwind(15)] fn c01_polyn_11() { c01_polyn::<11>() }
#[kani::proof] #[kani::unwind(15)] fn c01_polyn_10() { c01_polyn::<10>() }
#[kani::proof] #[kani::unwind(15)] fn c01_polyn_12() { c01_polyn::<12>() }
// all lengths up to 12 with x in {0, 1, -1}
#[kani::proof] #[kani::unwind(15)] fn c01_polyn_pm1_5() { c01_polyn_xs::<5>(3) }
#[kani::proof] #[kani::unwind(15)] fn c01_polyn_pm1_6() { c01_polyn_xs::<6>(3) }
#[kani::proof] #[kani::unwind(15)] fn c01_polyn_pm1_7() { c01_polyn_xs::<7>(3) }
#[kani::proof] #[kani::unwind(15)] fn c01_polyn_pm1_8() { c01_polyn_xs::<8>(3) }
#[kani::proof] #[kani::unwind(15)] fn c01_polyn_pm1_9() { c01_polyn_xs::<9>(3) }
#[kani::proof] #[kani::unwind(15)] fn c01_polyn_pm1_10() { c01_polyn_xs::<10>(3) }
#[kani::proof] #[kani::unwind(15)] fn c01_polyn_pm1_11() { c01_polyn_xs::<11>(3) }
#[kani::proof] #[kani::unwind(15)] fn c01_polyn_pm1_12() { c01_polyn_xs::<12>(3) }

// long vectors: one symbolic integer-valued coefficient at a symbolic position, all others zero, x in {1, -1}:
// every coefficient position of a vector of length N contributes with its own power (catches dropped / misplaced high coefficients)
fn c01_polyn_impulse<const N: usize>() {
    let i: usize = kani::any();
    kani::assume(i < N);
    let k = small_any();
    let mut c = [0.0f64; N];
    c[i] = k;
    let p = PolyN(c.to_vec());
    let xs = [1.0f64, -1.0];
    let mut xi = 0;
    while xi < 2 {
        let x = xs[xi];
        let got = p.evaluate(x);
        let mut acc = c[N - 1];
        let mut j = N - 1;
        while j > 0 {
            j -= 1;
            acc = acc.mul_add(x, c[j]);
        }
        assert!(bits_eq(got, acc), "[spec] PolyN::evaluate is the Horner recursion over the coefficients, highest first (impulse at a symbolic position)");
        xi += 1;
    }
    kani::cover!(true, "[cover] reachable");
}
#[kani::proof] #[kani::unwind(26)] fn c01_polyn_impulse_24() { c01_polyn_impulse::<24>() }
#[kani::proof] #[kani::unwind(42)] fn c01_polyn_impulse_40() { c01_polyn_impulse::<40>() }

// ------------------------------------------------------------------------------------------- C17: approximate equality
// abs_diff_eq / relative_eq of a polynomial hold exactly when they hold for every pair of corresponding coefficients.
// Numbers: integer-valued doubles in [-100,100]; tolerances from a concrete set (products need a concrete factor).
const TOLS: [f64; 2] = [0.0, 1.0];
/// (epsilon, max_relative) pairs: distinct so that swapped tolerances are visible
const RELS: [(f64, f64); 2] = [(0.0, 0.5), (1.0, 0.0)];
/// integer-valued doubles in [-8, 8] for the approx harnesses (float comparisons against products are costly in CBMC)
fn tiny_any() -> f64 { let v: i8 = kani::any(); kani::assume(v >= -8 && v <= 8); v as f64 }
macro_rules! c17_arr {
    ($name:ident, $t:ident, $n:expr) => {
        #[kani::proof]
        #[kani::unwind(12)]
        fn $name() {
            let mut a = [0.0f64; $n];
            let mut b = [0.0f64; $n];
            let mut i = 0;
            while i < $n { a[i] = tiny_any(); b[i] = tiny_any(); i += 1; }
            let (pa, pb) = ($t(a), $t(b));
            let mut ei = 0;
            while ei < TOLS.len() {
                let eps = TOLS[ei];
                let mut want = true;
                let mut i = 0;
                while i < $n { want = want && a[i].abs_diff_eq(&b[i], eps); i += 1; }
                assert!(pa.abs_diff_eq(&pb, eps) == want, "[spec] abs_diff_eq holds exactly when it holds for every pair of coefficients");
                ei += 1;
            }
            let mut ri = 0;
            while ri < RELS.len() {
                let (eps, mr) = RELS[ri];
                let mut wantr = true;
                let mut i = 0;
                while i < $n { wantr = wantr && a[i].relative_eq(&b[i], eps, mr); i += 1; }
                assert!(pa.relative_eq(&pb, eps, mr) == wantr, "[spec] relative_eq holds exactly when it holds for every pair of coefficients");
                ri += 1;
            }
            kani::cover!(true, "[cover] reachable");
        }
    };
}
c17_arr!(c17_poly1, Poly1, 2);
c17_arr!(c17_poly2, Poly2, 3);
c17_arr!(c17_poly3, Poly3, 4);
c17_arr!(c17_poly4, Poly4, 5);
c17_arr!(c17_poly5, Poly5, 6);
c17_arr!(c17_poly6, Poly6, 7);
c17_arr!(c17_poly7, Poly7, 8);
c17_arr!(c17_poly8, Poly8, 9);
#[kani::proof]
#[kani::unwind(12)]
fn c17_poly0() {
    let (a, b) = (tiny_any(), tiny_any());
    let mut ei = 0;
    while ei < TOLS.len() {
        let eps = TOLS[ei];
        assert!(Poly0(a).abs_diff_eq(&Poly0(b), eps) == a.abs_diff_eq(&b, eps), "[spec] abs_diff_eq is number-by-number");
        ei += 1;
    }
    let mut ri = 0;
    while ri < RELS.len() {
        let (eps, mr) = RELS[ri];
        assert!(Poly0(a).relative_eq(&Poly0(b), eps, mr) == a.relative_eq(&b, eps, mr), "[spec] relative_eq is number-by-number");
        ri += 1;
    }
    kani::cover!(true, "[cover] reachable");
}
fn c17_polyn<const N: usize, const M: usize>() {
    let mut a = [0.0f64; N];
    let mut b = [0.0f64; M];
    let mut i = 0;
    while i < N { a[i] = tiny_any(); i += 1; }
    let mut i = 0;
    while i < M { b[i] = tiny_any(); i += 1; }
    let (pa, pb) = (PolyN(a.to_vec()), PolyN(b.to_vec()));
    let mut ei = 0;
    while ei < TOLS.len() {
        let eps = TOLS[ei];
        let mut want = N == M;
        let mut i = 0;
        while i < N && i < M { want = want && a[i].abs_diff_eq(&b[i], eps); i += 1; }
        assert!(pa.abs_diff_eq(&pb, eps) == want, "[spec] PolyN: equal lengths and every pair of coefficients");
        let mut wantr = N == M;
        let mut i = 0;
        while i < N && i < M { wantr = wantr && a[i].relative_eq(&b[i], eps, 0.5); i += 1; }
        assert!(pa.relative_eq(&pb, eps, 0.5) == wantr, "[spec] PolyN relative_eq: equal lengths and every pair of coefficients");
        ei += 1;
    }
    kani::cover!(true, "[cover] reachable");
}
#[kani::proof] #[kani::unwind(8)] fn c17_polyn_2_2() { c17_polyn::<2, 2>() }
#[kani::proof] #[kani::unwind(8)] fn c17_polyn_2_3() { c17_polyn::<2, 3>() }
#[kani::proof] #[kani::unwind(8)] fn c17_polyn_0_1() { c17_polyn::<0, 1>() }
#[kani::proof] #[kani::unwind(8)] fn c17_polyn_0_0() { c17_polyn::<0, 0>() }

// full-range coefficients (any finite double) with the two scalars whose products CBMC can afford: 2.0 and -1.0
macro_rules! c14_mulassign_full {
    ($name:ident, $t:ident, $n:expr) => {
        #[kani::proof]
        #[kani::unwind(12)]
        fn $name() {
            let mut c = [0.0f64; $n];
            let mut i = 0;
            while i < $n { c[i] = fin_any(); i += 1; }
            const S2: [f64; 2] = [2.0, -1.0];
            let mut si = 0;
            while si < 2 {
                let s = S2[si];
                let a = $t(c) * s;
                let mut b = $t(c);
                b *= s;
                let mut i = 0;
                while i < $n {
                    assert!(bits_eq(a.0[i], b.0[i]), "[spec] `*=` gives exactly the result of `*` (full-range coefficients)");
                    assert!(bits_eq(a.0[i], c[i] * s), "[spec] every coefficient is the correctly rounded product s*c (full-range coefficients)");
                    i += 1;
                }
                si += 1;
            }
            kani::cover!(true, "[cover] reachable");
        }
    };
}
c14_mulassign_full!(c14_mulassign_full_poly1, Poly1, 2);
c14_mulassign_full!(c14_mulassign_full_poly2, Poly2, 3);
c14_mulassign_full!(c14_mulassign_full_poly3, Poly3, 4);
c14_mulassign_full!(c14_mulassign_full_poly4, Poly4, 5);
c14_mulassign_full!(c14_mulassign_full_poly5, Poly5, 6);
c14_mulassign_full!(c14_mulassign_full_poly6, Poly6, 7);
c14_mulassign_full!(c14_mulassign_full_poly7, Poly7, 8);
c14_mulassign_full!(c14_mulassign_full_poly8, Poly8, 9);
