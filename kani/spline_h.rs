// Kani harnesses attached as a child module of crate::spline.  The numeric kernels `f_dx` and `segment` are under Verus
// contracts (unit u_spline); here they are replaced by recording stubs so that the zip/chain/skip wiring of
// `constrained_spline` can be read off exactly.  Knot coordinates range over the integers 0..15 (as doubles): the stub
// for f_dx packs its six arguments into one exactly representable double.
#![allow(dead_code, unused_imports)]
use super::*;

fn digit() -> f64 { let v: u8 = kani::any(); kani::assume(v < 16); v as f64 }

/// f_dx stub: base-32 code of (k0.x, k0.y, k1.x, k1.y, k2.x, k2.y)  (coordinates < 32, code < 2^30, exact)
fn rec_f_dx(k0: Knot, k1: Knot, k2: Knot) -> f64 {
    ((((k0.x * 32.0 + k0.y) * 32.0 + k1.x) * 32.0 + k1.y) * 32.0 + k2.x) * 32.0 + k2.y
}
fn rec_segment_left(f0: f64, k0: Knot, f1: f64, k1: Knot) -> Segment<Poly3> {
    Segment { end: k1.x, poly: Poly3([f0, k0.x, k0.y, f1]) }
}
fn rec_segment_right(f0: f64, k0: Knot, f1: f64, k1: Knot) -> Segment<Poly3> {
    Segment { end: k0.x, poly: Poly3([f1, k1.x, k1.y, f0]) }
}

fn c04_wiring<const N: usize>(right: bool) { c04_wiring_x::<N>(right, false) }
/// `long`: abscissae are the concrete integers 0..N-1 (N <= 32), ordinates symbolic digits - for long knot lists
fn c04_wiring_x<const N: usize>(right: bool, long: bool) {
    let mut ks = [Knot { x: 0.0, y: 0.0 }; N];
    let mut i = 0;
    while i < N { ks[i] = Knot { x: if long { i as f64 } else { digit() }, y: digit() }; i += 1; }
    // strictly increasing abscissae (the property's precondition; also keeps the end-slope divisions finite)
    let mut i = 1;
    while i < N { kani::assume(ks[i - 1].x < ks[i].x); i += 1; }
    let r = constrained_spline(&ks);
    assert!(r.segments.len() == N - 1, "[spec] one cubic per knot interval");
    // expected slopes: interior = f_dx(k_{i-1}, k_i, k_{i+1}); ends = 3/2 * end secant - 1/2 * neighbouring knot slope
    let mut f = [0.0f64; N];
    let mut i = 1;
    while i + 1 < N { f[i] = rec_f_dx(ks[i - 1], ks[i], ks[i + 1]); i += 1; }
    f[0] = (3.0 / 2.0) * (ks[1].y - ks[0].y) / (ks[1].x - ks[0].x) - (1.0 / 2.0) * f[1];
    f[N - 1] = (3.0 / 2.0) * (ks[N - 1].y - ks[N - 2].y) / (ks[N - 1].x - ks[N - 2].x) - (1.0 / 2.0) * f[N - 2];
    let mut i = 0;
    while i + 1 < N {
        let s = r.segments[i];
        let (fa, ka, fb, kb) = (f[i], ks[i], f[i + 1], ks[i + 1]);
        if right {
            assert!(s.poly.0[0].to_bits() == fb.to_bits(), "[spec] cubic i gets the slope prescribed at its right knot");
            assert!(s.poly.0[1] == kb.x && s.poly.0[2] == kb.y, "[spec] cubic i ends at knot i+1");
            assert!(s.poly.0[3].to_bits() == fa.to_bits(), "[spec] cubic i gets the slope prescribed at its left knot");
            assert!(s.end == ka.x);
        } else {
            assert!(s.poly.0[0].to_bits() == fa.to_bits(), "[spec] cubic i gets the slope prescribed at its left knot (interior: f_dx of the three surrounding knots; end: 3/2 secant - 1/2 neighbour)");
            assert!(s.poly.0[1] == ka.x && s.poly.0[2] == ka.y, "[spec] cubic i starts at knot i");
            assert!(s.poly.0[3].to_bits() == fb.to_bits(), "[spec] cubic i gets the slope prescribed at its right knot");
            assert!(s.end == kb.x, "[spec] the end of cubic i is the right abscissa of interval i");
        }
        i += 1;
    }
    kani::cover!(true, "[cover] reachable");
}
macro_rules! c04 { ($($name:ident, $n:expr, $right:expr, $seg:ident;)*) => { $(
    #[kani::proof] #[kani::stub(f_dx, rec_f_dx)] #[kani::stub(segment, $seg)] #[kani::unwind(9)] fn $name() { c04_wiring::<$n>($right) } )* } }
c04! {
    c04_wiring_left_n3, 3, false, rec_segment_left; c04_wiring_left_n4, 4, false, rec_segment_left; c04_wiring_left_n5, 5, false, rec_segment_left;
    c04_wiring_left_n6, 6, false, rec_segment_left;
    c04_wiring_right_n3, 3, true, rec_segment_right; c04_wiring_right_n4, 4, true, rec_segment_right; c04_wiring_right_n5, 5, true, rec_segment_right;
    c04_wiring_right_n6, 6, true, rec_segment_right;
}
// long knot lists (the kernels are stubs, so this is iterator plumbing only)
#[kani::proof] #[kani::stub(f_dx, rec_f_dx)] #[kani::stub(segment, rec_segment_left)] #[kani::unwind(15)] fn c04_wiring_left_n12() { c04_wiring_x::<12>(false, true) }
#[kani::proof] #[kani::stub(f_dx, rec_f_dx)] #[kani::stub(segment, rec_segment_right)] #[kani::unwind(15)] fn c04_wiring_right_n12() { c04_wiring_x::<12>(true, true) }
#[kani::proof] #[kani::stub(f_dx, rec_f_dx)] #[kani::stub(segment, rec_segment_left)] #[kani::unwind(23)] fn c04_wiring_left_n20() { c04_wiring_x::<20>(false, true) }
#[kani::proof] #[kani::stub(f_dx, rec_f_dx)] #[kani::stub(segment, rec_segment_right)] #[kani::unwind(23)] fn c04_wiring_right_n20() { c04_wiring_x::<20>(true, true) }
#[kani::proof]
#[kani::unwind(4)]
#[kani::should_panic]
fn c16_spline_two_knots_mustpanic() {
    let ks = [Knot { x: 0.0, y: digit() }, Knot { x: 1.0, y: digit() }];
    let _ = constrained_spline(&ks);
}
