// Kani harnesses attached as a CHILD module of crate::piecewise (so private fields are visible).
// The repository source is compiled unchanged; this file is added by tools/krun.py with
//   #[cfg(kani)] #[path = "/verif/kani/piecewise_h.rs"] mod verif_kani;
// Contracts are written out in harness form: assume(pre); call; assert(post).
#![allow(dead_code, unused_imports, static_mut_refs)]
use super::*;
use crate::poly::*;

// ---------------------------------------------------------------------------------------------
// Tag pieces: an abstract piece type.  `evaluate` returns the piece's identity and records the
// argument's bits; by parametricity of the generic code under test, the piece selected and the
// argument passed are the same for every T.
static mut LAST_ARG: u64 = 0;
static mut EVAL_CALLS: u32 = 0;

#[derive(Clone, Copy, Debug, PartialEq)]
pub struct Tag(pub u32);
impl Evaluate for Tag {
    fn evaluate(&self, v: f64) -> f64 {
        unsafe {
            LAST_ARG = v.to_bits();
            EVAL_CALLS += 1;
        }
        self.0 as f64
    }
}

fn same_bits(a: f64, b: f64) -> bool {
    // NaN payloads are not stable under CBMC's to_bits; all NaNs count as one value
    (a.is_nan() && b.is_nan()) || a.to_bits() == b.to_bits()
}

/// N segments with symbolic, non-NaN, non-decreasing ends (duplicates and infinities allowed).
fn wf_segments<const N: usize>() -> [Segment<Tag>; N] {
    let mut segs = [Segment { end: 0.0, poly: Tag(0) }; N];
    let mut i = 0;
    while i < N {
        let e: f64 = kani::any();
        kani::assume(!e.is_nan());
        if i > 0 {
            kani::assume(segs[i - 1].end <= e);
        }
        segs[i] = Segment { end: e, poly: Tag(i as u32 + 1) };
        i += 1;
    }
    segs
}

/// The property's own selection rule: first segment whose end is strictly greater than x, else last.
fn sel<const N: usize>(segs: &[Segment<Tag>; N], x: f64) -> usize {
    let mut i = 0;
    while i < N {
        if segs[i].end > x {
            return i;
        }
        i += 1;
    }
    N - 1
}

// --------------------------------------------------------------------------------------- C02/C16
fn c02_direct<const N: usize>() {
    let segs = wf_segments::<N>();
    let pw = Piecewise { segments: segs.to_vec() };
    let x: f64 = kani::any(); // every f64, NaN and infinities included (C16: no panic)
    unsafe { EVAL_CALLS = 0; }
    let r = pw.evaluate(x);
    if !x.is_nan() {
        // C02 speaks about non-NaN x only; for NaN the call must merely return (C16)
        let want = sel(&segs, x);
        assert!(r == (want as u32 + 1) as f64, "[spec] selected piece is the first with end > x, else the last");
        unsafe {
            assert!(EVAL_CALLS == 1, "[spec] exactly one piece is evaluated");
            assert!(f64::from_bits(LAST_ARG).to_bits() == x.to_bits(), "[spec] the piece is evaluated at x itself");
        }
    }
}
#[kani::proof] #[kani::unwind(3)] fn c02_direct_n1() { c02_direct::<1>() }
#[kani::proof] #[kani::unwind(4)] fn c02_direct_n2() { c02_direct::<2>() }
#[kani::proof] #[kani::unwind(5)] fn c02_direct_n3() { c02_direct::<3>() }
#[kani::proof] #[kani::unwind(6)] fn c02_direct_n4() { c02_direct::<4>() }
#[kani::proof] #[kani::unwind(7)] fn c02_direct_n5() { c02_direct::<5>() }
#[kani::proof] #[kani::unwind(8)] fn c02_direct_n6() { c02_direct::<6>() }

#[kani::proof]
#[kani::should_panic]
fn c16_direct_empty_mustpanic() {
    let pw: Piecewise<Tag> = Piecewise { segments: Vec::new() };
    let x: f64 = kani::any();
    let _ = pw.evaluate(x);
}

// ------------------------------------------------------------------------------------------- C03
// Representation invariant I of PiecewiseEvaluator over segments `segs` (front = segs[..N-1]):
//   tail == front[cursor..], last == &segs[N-1], last_evaluation (le) is not NaN,
//   for all i < cursor: end_i <= le,   and   cursor < N-1  ==>  end_cursor >= le.
fn inv_holds<const N: usize>(ev: &PiecewiseEvaluator<'_, Tag>, segs: &[Segment<Tag>; N]) -> bool {
    let front = &segs[..N - 1];
    if ev.all_segments_front.len() != N - 1 { return false; }
    if ev.all_segments_front.as_ptr() != front.as_ptr() { return false; }
    if ev.tail.len() > N - 1 { return false; }
    let cursor = (N - 1) - ev.tail.len();
    if ev.tail.as_ptr() != front[cursor..].as_ptr() { return false; }
    if !core::ptr::eq(ev.last, &segs[N - 1]) { return false; }
    let le = ev.last_evaluation;
    if le.is_nan() { return false; }
    let mut i = 0;
    while i < cursor {
        if !(front[i].end <= le) { return false; }
        i += 1;
    }
    if cursor < N - 1 && !(front[cursor].end >= le) { return false; }
    true
}

fn c03_new<const N: usize>() {
    let segs = wf_segments::<N>();
    let ev = PiecewiseEvaluator::new(&segs[..]);
    assert!(inv_holds(&ev, &segs), "[inv] new() establishes the representation invariant");
}

/// Inductive step: ANY state satisfying I, ANY f64 query (NaN included).
fn c03_step<const N: usize>(allow_nan: bool) {
    let segs = wf_segments::<N>();
    let cursor: usize = kani::any();
    kani::assume(cursor <= N - 1);
    let le: f64 = kani::any();
    let front = &segs[..N - 1];
    let mut ev = PiecewiseEvaluator {
        all_segments_front: front,
        tail: &front[cursor..],
        last: &segs[N - 1],
        last_evaluation: le,
    };
    kani::assume(inv_holds(&ev, &segs));
    let x: f64 = kani::any();
    if !allow_nan { kani::assume(!x.is_nan()); }
    unsafe { EVAL_CALLS = 0; }
    let r = ev.evaluate(x);
    let want = sel(&segs, x);
    assert!(r == (want as u32 + 1) as f64, "[spec] evaluator answers with the piece direct evaluation selects");
    unsafe {
        assert!(EVAL_CALLS == 1, "[spec] exactly one piece is evaluated");
        assert!(same_bits(f64::from_bits(LAST_ARG), x), "[spec] the piece is evaluated at x itself");
    }
    assert!(inv_holds(&ev, &segs), "[inv] evaluate() preserves the representation invariant");
}

/// Behavioural cross-check through the public API only: K queries from a fresh evaluator.
fn c03_history<const N: usize, const K: usize>(allow_nan: bool) {
    let segs = wf_segments::<N>();
    let mut ev = PiecewiseEvaluator::new(&segs[..]);
    let mut k = 0;
    while k < K {
        let x: f64 = kani::any();
        if !allow_nan { kani::assume(!x.is_nan()); }
        let r = ev.evaluate(x);
        let want = sel(&segs, x);
        assert!(r == (want as u32 + 1) as f64, "[spec] every query of a history is answered with the piece direct evaluation selects");
        unsafe { assert!(same_bits(f64::from_bits(LAST_ARG), x), "[spec] the piece is evaluated at x itself"); }
        k += 1;
    }
}
#[kani::proof] #[kani::unwind(5)] fn c03_hist_n2_k3() { c03_history::<2, 3>(false) }
#[kani::proof] #[kani::unwind(5)] fn c03_hist_n3_k3() { c03_history::<3, 3>(false) }
#[kani::proof] #[kani::unwind(6)] fn c03_hist_n4_k3() { c03_history::<4, 3>(false) }
#[kani::proof] #[kani::unwind(5)] fn c16_hist_anyf64_n3_k3() { c03_history::<3, 3>(true) }
#[kani::proof] #[kani::unwind(3)] fn c03_new_n1() { c03_new::<1>() }
#[kani::proof] #[kani::unwind(4)] fn c03_new_n2() { c03_new::<2>() }
#[kani::proof] #[kani::unwind(5)] fn c03_new_n3() { c03_new::<3>() }
#[kani::proof] #[kani::unwind(6)] fn c03_new_n4() { c03_new::<4>() }
#[kani::proof] #[kani::unwind(3)] fn c03_step_n1() { c03_step::<1>(false) }
#[kani::proof] #[kani::unwind(4)] fn c03_step_n2() { c03_step::<2>(false) }
#[kani::proof] #[kani::unwind(5)] fn c03_step_n3() { c03_step::<3>(false) }
#[kani::proof] #[kani::unwind(6)] fn c03_step_n4() { c03_step::<4>(false) }
#[kani::proof] #[kani::unwind(7)] fn c03_step_n5() { c03_step::<5>(false) }
#[kani::proof] #[kani::unwind(8)] fn c03_step_n6() { c03_step::<6>(false) }
// C16: the same step with every f64 query, NaN included
#[kani::proof] #[kani::unwind(3)] fn c16_step_anyf64_n1() { c03_step::<1>(true) }
#[kani::proof] #[kani::unwind(4)] fn c16_step_anyf64_n2() { c03_step::<2>(true) }
#[kani::proof] #[kani::unwind(5)] fn c16_step_anyf64_n3() { c03_step::<3>(true) }
#[kani::proof] #[kani::unwind(6)] fn c16_step_anyf64_n4() { c03_step::<4>(true) }

#[kani::proof]
#[kani::should_panic]
fn c16_evaluator_empty_mustpanic() {
    let segs: [Segment<Tag>; 0] = [];
    let _ = PiecewiseEvaluator::new(&segs[..]);
}
