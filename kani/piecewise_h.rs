// Kani harnesses attached as a CHILD module of crate::piecewise (so private fields are visible).
// The repository source is compiled unchanged; this file is added by tools/krun.py with
//   #[cfg(kani)] #[path = "/verif/kani/piecewise_h.rs"] mod verif_kani;
// Contracts are written out in harness form: assume(pre); call; assert(post).
#![allow(dead_code, unused_imports, static_mut_refs)]
use super::*;
use crate::poly::*;

// ---------------------------------------------------------------------------------------------
// Tag pieces: an abstract piece type.  `evaluate` returns the piece's identity and records the
// argument's bits; by parametricity of the generic code under test, the piece selected and the
// argument passed are the same for every T.
static mut LAST_ARG: u64 = 0;
static mut EVAL_CALLS: u32 = 0;

#[derive(Clone, Copy, Debug, PartialEq)]
pub struct Tag(pub u32);
impl Evaluate for Tag {
    fn evaluate(&self, v: f64) -> f64 {
        unsafe {
            LAST_ARG = v.to_bits();
            EVAL_CALLS += 1;
        }
        self.0 as f64
    }
}

fn same_bits(a: f64, b: f64) -> bool {
    // NaN payloads are not stable under CBMC's to_bits; all NaNs count as one value
    (a.is_nan() && b.is_nan()) || a.to_bits() == b.to_bits()
}

/// N segments with symbolic, non-NaN, non-decreasing ends (duplicates and infinities allowed).
fn wf_segments<const N: usize>() -> [Segment<Tag>; N] {
    let mut segs = [Segment { end: 0.0, poly: Tag(0) }; N];
    let mut i = 0;
    while i < N {
        let e: f64 = kani::any();
        kani::assume(!e.is_nan());
        if i > 0 {
            kani::assume(segs[i - 1].end <= e);
        }
        segs[i] = Segment { end: e, poly: Tag(i as u32 + 1) };
        i += 1;
    }
    segs
}

/// The property's own selection rule: first segment whose end is strictly greater than x, else last.
fn sel<const N: usize>(segs: &[Segment<Tag>; N], x: f64) -> usize {
    let mut i = 0;
    while i < N {
        if segs[i].end > x {
            return i;
        }
        i += 1;
    }
    N - 1
}

// --------------------------------------------------------------------------------------- C02/C16
fn c02_direct<const N: usize>() {
    let segs = wf_segments::<N>();
    let pw = Piecewise { segments: segs.to_vec() };
    let x: f64 = kani::any(); // every f64, NaN and infinities included (C16: no panic)
    unsafe { EVAL_CALLS = 0; }
    let r = pw.evaluate(x);
    if !x.is_nan() {
        // C02 speaks about non-NaN x only; for NaN the call must merely return (C16)
        let want = sel(&segs, x);
        assert!(r == (want as u32 + 1) as f64, "[spec] selected piece is the first with end > x, else the last");
        unsafe {
            assert!(EVAL_CALLS == 1, "[spec] exactly one piece is evaluated");
            assert!(f64::from_bits(LAST_ARG).to_bits() == x.to_bits(), "[spec] the piece is evaluated at x itself");
        }
    }
    kani::cover!(true, "[cover] the end of the harness is reachable (assumptions are satisfiable)");
}
#[kani::proof] #[kani::unwind(3)] fn c02_direct_n1() { c02_direct::<1>() }
#[kani::proof] #[kani::unwind(4)] fn c02_direct_n2() { c02_direct::<2>() }
#[kani::proof] #[kani::unwind(5)] fn c02_direct_n3() { c02_direct::<3>() }
#[kani::proof] #[kani::unwind(6)] fn c02_direct_n4() { c02_direct::<4>() }
#[kani::proof] #[kani::unwind(7)] fn c02_direct_n5() { c02_direct::<5>() }
#[kani::proof] #[kani::unwind(8)] fn c02_direct_n6() { c02_direct::<6>() }
#[kani::proof] #[kani::unwind(11)] fn c02_direct_n9() { c02_direct::<9>() }
#[kani::proof] #[kani::unwind(14)] fn c02_direct_n12() { c02_direct::<12>() }
#[kani::proof] #[kani::unwind(19)] fn c02_direct_n17() { c02_direct::<17>() }

#[kani::proof]
#[kani::should_panic]
fn c16_direct_empty_mustpanic() {
    let pw: Piecewise<Tag> = Piecewise { segments: Vec::new() };
    let x: f64 = kani::any();
    let _ = pw.evaluate(x);
}

// ------------------------------------------------------------------------------------------- C03
// Representation invariant I of PiecewiseEvaluator over segments `segs` (front = segs[..N-1]):
//   tail == front[cursor..], last == &segs[N-1], last_evaluation (le) is not NaN,
//   for all i < cursor: end_i <= le,   and   cursor < N-1  ==>  end_cursor >= le.
fn inv_holds<const N: usize>(ev: &PiecewiseEvaluator<'_, Tag>, segs: &[Segment<Tag>; N]) -> bool {
    let front = &segs[..N - 1];
    if ev.all_segments_front.len() != N - 1 { return false; }
    if ev.all_segments_front.as_ptr() != front.as_ptr() { return false; }
    if ev.tail.len() > N - 1 { return false; }
    let cursor = (N - 1) - ev.tail.len();
    if ev.tail.as_ptr() != front[cursor..].as_ptr() { return false; }
    if !core::ptr::eq(ev.last, &segs[N - 1]) { return false; }
    let le = ev.last_evaluation;
    if le.is_nan() { return false; }
    let mut i = 0;
    while i < cursor {
        if !(front[i].end <= le) { return false; }
        i += 1;
    }
    if cursor < N - 1 && !(front[cursor].end >= le) { return false; }
    true
}

fn c03_new<const N: usize>() {
    let segs = wf_segments::<N>();
    let ev = PiecewiseEvaluator::new(&segs[..]);
    assert!(inv_holds(&ev, &segs), "[inv] new() establishes the representation invariant");
    kani::cover!(true, "[cover] the end of the harness is reachable (assumptions are satisfiable)");
}

/// Inductive step: ANY state satisfying I, ANY f64 query (NaN included).
fn c03_step<const N: usize>(allow_nan: bool) {
    let segs = wf_segments::<N>();
    let cursor: usize = kani::any();
    kani::assume(cursor <= N - 1);
    let le: f64 = kani::any();
    let front = &segs[..N - 1];
    let mut ev = PiecewiseEvaluator {
        all_segments_front: front,
        tail: &front[cursor..],
        last: &segs[N - 1],
        last_evaluation: le,
    };
    kani::assume(inv_holds(&ev, &segs));
    let x: f64 = kani::any();
    if !allow_nan { kani::assume(!x.is_nan()); }
    unsafe { EVAL_CALLS = 0; }
    let r = ev.evaluate(x);
    if !x.is_nan() {
        // what a NaN query returns is not specified (C16 only requires that it returns and harms nothing)
        let want = sel(&segs, x);
        assert!(r == (want as u32 + 1) as f64, "[spec] evaluator answers with the piece direct evaluation selects");
        unsafe {
            assert!(EVAL_CALLS == 1, "[spec] exactly one piece is evaluated");
            assert!(LAST_ARG == x.to_bits(), "[spec] the piece is evaluated at x itself");
        }
    }
    assert!(inv_holds(&ev, &segs), "[inv] evaluate() preserves the representation invariant");
    kani::cover!(true, "[cover] the end of the harness is reachable (assumptions are satisfiable)");
}

/// Behavioural cross-check through the public API only: K queries from a fresh evaluator.
fn c03_history<const N: usize, const K: usize>(allow_nan: bool) {
    let segs = wf_segments::<N>();
    let mut ev = PiecewiseEvaluator::new(&segs[..]);
    let mut k = 0;
    while k < K {
        let x: f64 = kani::any();
        if !allow_nan { kani::assume(!x.is_nan()); }
        let r = ev.evaluate(x);
        if !x.is_nan() {
            let want = sel(&segs, x);
            assert!(r == (want as u32 + 1) as f64, "[spec] every non-NaN query of a history is answered with the piece direct evaluation selects");
            unsafe { assert!(LAST_ARG == x.to_bits(), "[spec] the piece is evaluated at x itself"); }
        }
        k += 1;
    }
    kani::cover!(true, "[cover] the end of the harness is reachable (assumptions are satisfiable)");
}
#[kani::proof] #[kani::unwind(5)] fn c03_hist_n2_k3() { c03_history::<2, 3>(false) }
#[kani::proof] #[kani::unwind(5)] fn c03_hist_n3_k3() { c03_history::<3, 3>(false) }
#[kani::proof] #[kani::unwind(6)] fn c03_hist_n4_k3() { c03_history::<4, 3>(false) }
#[kani::proof] #[kani::unwind(5)] fn c16_hist_anyf64_n3_k3() { c03_history::<3, 3>(true) }
#[kani::proof] #[kani::unwind(3)] fn c03_new_n1() { c03_new::<1>() }
#[kani::proof] #[kani::unwind(4)] fn c03_new_n2() { c03_new::<2>() }
#[kani::proof] #[kani::unwind(5)] fn c03_new_n3() { c03_new::<3>() }
#[kani::proof] #[kani::unwind(6)] fn c03_new_n4() { c03_new::<4>() }
#[kani::proof] #[kani::unwind(3)] fn c03_step_n1() { c03_step::<1>(false) }
#[kani::proof] #[kani::unwind(4)] fn c03_step_n2() { c03_step::<2>(false) }
#[kani::proof] #[kani::unwind(5)] fn c03_step_n3() { c03_step::<3>(false) }
#[kani::proof] #[kani::unwind(6)] fn c03_step_n4() { c03_step::<4>(false) }
#[kani::proof] #[kani::unwind(7)] fn c03_step_n5() { c03_step::<5>(false) }
#[kani::proof] #[kani::unwind(8)] fn c03_step_n6() { c03_step::<6>(false) }
#[kani::proof] #[kani::unwind(10)] fn c03_step_n8() { c03_step::<8>(false) }
#[kani::proof] #[kani::unwind(12)] fn c03_step_n10() { c03_step::<10>(false) }
#[kani::proof] #[kani::unwind(14)] fn c03_step_n12() { c03_step::<12>(false) }
// C16: the same step with every f64 query, NaN included
#[kani::proof] #[kani::unwind(3)] fn c16_step_anyf64_n1() { c03_step::<1>(true) }
#[kani::proof] #[kani::unwind(4)] fn c16_step_anyf64_n2() { c03_step::<2>(true) }
#[kani::proof] #[kani::unwind(5)] fn c16_step_anyf64_n3() { c03_step::<3>(true) }
#[kani::proof] #[kani::unwind(6)] fn c16_step_anyf64_n4() { c03_step::<4>(true) }

#[kani::proof]
#[kani::should_panic]
fn c16_evaluator_empty_mustpanic() {
    let segs: [Segment<Tag>; 0] = [];
    let _ = PiecewiseEvaluator::new(&segs[..]);
}

// =============================================================================================
// C12: evaluate_v
// =============================================================================================
static mut PULLED: u32 = 0;
struct CountingIter<const K: usize> { xs: [f64; K], i: usize }
impl<const K: usize> Iterator for CountingIter<K> {
    type Item = f64;
    fn next(&mut self) -> Option<f64> {
        if self.i < K {
            let v = self.xs[self.i];
            self.i += 1;
            unsafe { PULLED += 1; }
            Some(v)
        } else {
            None
        }
    }
}

/// the same input iterator reporting its exact length through size_hint
struct SizedCountingIter<const K: usize> { xs: [f64; K], i: usize }
impl<const K: usize> Iterator for SizedCountingIter<K> {
    type Item = f64;
    fn next(&mut self) -> Option<f64> {
        if self.i < K {
            let v = self.xs[self.i];
            self.i += 1;
            unsafe { PULLED += 1; }
            Some(v)
        } else {
            None
        }
    }
    fn size_hint(&self) -> (usize, Option<usize>) { (K - self.i, Some(K - self.i)) }
}
/// long lists: breakpoints on the concrete grid 0, 0, 1, 1, 2, ... (duplicates included) so that only the arguments are symbolic
fn grid_segments<const N: usize>() -> [Segment<Tag>; N] {
    let mut segs = [Segment { end: 0.0, poly: Tag(0) }; N];
    let mut i = 0;
    while i < N { segs[i] = Segment { end: (i / 2) as f64, poly: Tag(i as u32 + 1) }; i += 1; }
    segs
}
fn c12_evaluate_v<const N: usize, const K: usize>(allow_nan: bool) { c12_evaluate_v_x::<N, K>(allow_nan, false) }
fn c12_evaluate_v_x<const N: usize, const K: usize>(allow_nan: bool, long: bool) {
    let segs = if long { grid_segments::<N>() } else { wf_segments::<N>() };
    let pw = Piecewise { segments: segs.to_vec() };
    let mut xs = [0.0f64; K];
    let mut k = 0;
    while k < K {
        xs[k] = kani::any();
        if !allow_nan { kani::assume(!xs[k].is_nan()); }
        k += 1;
    }
    unsafe { PULLED = 0; EVAL_CALLS = 0; }
    let mut it: Box<dyn Iterator<Item = f64>> = if long { Box::new(pw.evaluate_v(SizedCountingIter::<K> { xs, i: 0 })) } else { Box::new(pw.evaluate_v(CountingIter::<K> { xs, i: 0 })) };
    unsafe { assert!(EVAL_CALLS == 0, "[spec] lazy: nothing is evaluated before the first output is requested"); }
    let mut running_max = f64::NEG_INFINITY;
    let mut nondecreasing = true;
    let mut k = 0;
    while k < K {
        let out = it.next();
        assert!(out.is_some(), "[spec] one output per argument");
        let r = out.unwrap();
        if !allow_nan {
            if k > 0 && xs[k] < xs[k - 1] { nondecreasing = false; }
            if xs[k] > running_max { running_max = xs[k]; }
            let want = sel(&segs, running_max);
            assert!(r == (want as u32 + 1) as f64, "[spec] argument k is evaluated with the piece direct evaluation selects for the running maximum");
            if nondecreasing {
                assert!(want == sel(&segs, xs[k]), "[spec] non-decreasing arguments: same piece as pointwise evaluation");
            }
            unsafe {
                assert!(LAST_ARG == xs[k].to_bits(), "[spec] the piece is evaluated at the argument itself");
                assert!(EVAL_CALLS == k as u32 + 1, "[spec] lazy and in order: exactly k+1 evaluations after k+1 outputs");
                assert!(PULLED == k as u32 + 1, "[spec] lazy: exactly k+1 arguments pulled after k+1 outputs");
            }
        }
        k += 1;
    }
    assert!(it.next().is_none(), "[spec] no output beyond the arguments");
    kani::cover!(true, "[cover] the end of the harness is reachable (assumptions are satisfiable)");
}
#[kani::proof] #[kani::unwind(5)] fn c12_n1_k3() { c12_evaluate_v::<1, 3>(false) }
#[kani::proof] #[kani::unwind(5)] fn c12_n2_k3() { c12_evaluate_v::<2, 3>(false) }
#[kani::proof] #[kani::unwind(5)] fn c12_n3_k3() { c12_evaluate_v::<3, 3>(false) }
#[kani::proof] #[kani::unwind(6)] fn c12_n4_k3() { c12_evaluate_v::<4, 3>(false) }
#[kani::proof] #[kani::unwind(6)] fn c12_n3_k4() { c12_evaluate_v::<3, 4>(false) }
#[kani::proof] #[kani::unwind(6)] fn c12_n4_k4() { c12_evaluate_v::<4, 4>(false) }
#[kani::proof] #[kani::unwind(8)] fn c12_n5_k2() { c12_evaluate_v::<5, 2>(false) }
#[kani::proof] #[kani::unwind(9)] fn c12_n6_k2() { c12_evaluate_v::<6, 2>(false) }
#[kani::proof] #[kani::unwind(11)] fn c12_n8_k2() { c12_evaluate_v::<8, 2>(false) }
#[kani::proof] #[kani::unwind(15)] fn c12_n12_k2() { c12_evaluate_v::<12, 2>(false) }
#[kani::proof] #[kani::unwind(27)] fn c12_long_n24_k2() { c12_evaluate_v_x::<24, 2>(false, true) }
#[kani::proof] #[kani::unwind(27)] fn c12_long_n17_k3() { c12_evaluate_v_x::<17, 3>(false, true) }
#[kani::proof] #[kani::unwind(5)] fn c16_evaluate_v_anyf64_n3_k3() { c12_evaluate_v::<3, 3>(true) }
#[kani::proof]
#[kani::should_panic]
fn c16_evaluate_v_empty_mustpanic() {
    let pw: Piecewise<Tag> = Piecewise { segments: Vec::new() };
    let mut it = pw.evaluate_v(CountingIter::<1> { xs: [0.0], i: 0 });
    let _ = it.next();
}

// =============================================================================================
// C13: &f + &g, &f - &g on merged breakpoints.  PTag: `&a + &b` = pair code, `&a - &b` = pair code + 1000.
// =============================================================================================
#[derive(Clone, Copy, Debug, PartialEq)]
pub struct PTag(pub u32);
impl<'a, 'b> Add<&'b PTag> for &'a PTag {
    type Output = PTag;
    fn add(self, o: &'b PTag) -> PTag { PTag(self.0 * 16 + o.0) }
}
impl<'a, 'b> Sub<&'b PTag> for &'a PTag {
    type Output = PTag;
    fn sub(self, o: &'b PTag) -> PTag { PTag(self.0 * 16 + o.0 + 1000) }
}
fn wf_psegments<const N: usize>() -> [Segment<PTag>; N] {
    let mut segs = [Segment { end: 0.0, poly: PTag(0) }; N];
    let mut i = 0;
    while i < N {
        let e: f64 = kani::any();
        kani::assume(!e.is_nan());
        if i > 0 { kani::assume(segs[i - 1].end <= e); }
        segs[i] = Segment { end: e, poly: PTag(i as u32 + 1) };
        i += 1;
    }
    segs
}
fn psel(segs: &[Segment<PTag>], x: f64) -> usize {
    let mut i = 0;
    while i < segs.len() {
        if segs[i].end > x { return i; }
        i += 1;
    }
    segs.len() - 1
}
fn c13_merge<const N: usize, const M: usize>(sub: bool) {
    let f = wf_psegments::<N>();
    let g = wf_psegments::<M>();
    let pf = Piecewise { segments: f.to_vec() };
    let pg = Piecewise { segments: g.to_vec() };
    let r = if sub { &pf - &pg } else { &pf + &pg };
    let rs = &r.segments;
    assert!(rs.len() >= 1, "[spec] result is non-empty");
    assert!(rs.len() <= N + M - 1, "[spec] at most len(f)+len(g)-1 pieces");
    let mut i = 0;
    while i < rs.len() {
        let e = rs[i].end;
        assert!(!e.is_nan(), "[spec] result breakpoints are not NaN");
        if i > 0 { assert!(rs[i - 1].end <= e, "[spec] result breakpoints are non-decreasing"); }
        let mut found = false;
        let mut j = 0;
        while j < N { if f[j].end.to_bits() == e.to_bits() { found = true; } j += 1; }
        let mut j = 0;
        while j < M { if g[j].end.to_bits() == e.to_bits() { found = true; } j += 1; }
        assert!(found, "[spec] every result breakpoint is (bit for bit) a breakpoint of f or g");
        i += 1;
    }
    let x: f64 = kani::any();
    kani::assume(!x.is_nan());
    let k = psel(&rs[..], x);
    let want = (psel(&f[..], x) as u32 + 1) * 16 + (psel(&g[..], x) as u32 + 1) + if sub { 1000 } else { 0 };
    assert!(rs[k].poly.0 == want, "[spec] at every x the result combines the piece of f and the piece of g that direct evaluation selects");
    kani::cover!(true, "[cover] the end of the harness is reachable (assumptions are satisfiable)");
}
macro_rules! c13 { ($($name:ident, $n:expr, $m:expr, $sub:expr, $u:expr;)*) => { $( #[kani::proof] #[kani::unwind($u)] fn $name() { c13_merge::<$n, $m>($sub) } )* } }
c13! {
    c13_add_1_1, 1, 1, false, 4; c13_add_1_2, 1, 2, false, 5; c13_add_2_1, 2, 1, false, 5; c13_add_2_2, 2, 2, false, 6;
    c13_add_1_3, 1, 3, false, 6; c13_add_3_1, 3, 1, false, 6; c13_add_2_3, 2, 3, false, 7; c13_add_3_2, 3, 2, false, 7; c13_add_3_3, 3, 3, false, 8;
    c13_sub_1_1, 1, 1, true, 4; c13_sub_1_2, 1, 2, true, 5; c13_sub_2_1, 2, 1, true, 5; c13_sub_2_2, 2, 2, true, 6;
    c13_sub_1_3, 1, 3, true, 6; c13_sub_3_1, 3, 1, true, 6; c13_sub_2_3, 2, 3, true, 7; c13_sub_3_2, 3, 2, true, 7; c13_sub_3_3, 3, 3, true, 8;
    c13_add_4_4, 4, 4, false, 10; c13_sub_4_4, 4, 4, true, 10; c13_add_2_4, 2, 4, false, 8; c13_sub_4_2, 4, 2, true, 8;
}
#[kani::proof]
#[kani::unwind(5)]
#[kani::should_panic]
fn c16_add_nan_end_mustpanic() {
    let pf = Piecewise { segments: [Segment { end: f64::NAN, poly: PTag(1) }].to_vec() };
    let pg = Piecewise { segments: [Segment { end: 1.0, poly: PTag(1) }].to_vec() };
    let _ = &pf + &pg;
}

// =============================================================================================
// C15 / C08(piecewise): scalar operations and derivative keep the number of pieces, their order and every
// breakpoint; each piece receives the operation exactly once.  OpTag records what was applied to it.
// =============================================================================================
#[derive(Clone, Copy, Debug, PartialEq)]
pub struct OpTag { pub id: u32, pub muls: u32, pub negs: u32, pub trans: u32, pub derivs: u32, pub scalar: u64 }
impl Mul<f64> for OpTag {
    type Output = OpTag;
    fn mul(self, rhs: f64) -> OpTag { OpTag { muls: self.muls + 1, scalar: rhs.to_bits(), ..self } }
}
impl MulAssign<f64> for OpTag {
    fn mul_assign(&mut self, rhs: f64) { self.muls += 1; self.scalar = rhs.to_bits(); }
}
impl Neg for OpTag {
    type Output = OpTag;
    fn neg(self) -> OpTag { OpTag { negs: self.negs + 1, ..self } }
}
impl Translate for OpTag {
    fn translate(&mut self, v: f64) { self.trans += 1; self.scalar = v.to_bits(); }
}
// a piece type may well be evaluable; the operations under test have no business evaluating it (the value deliberately ignores the
// recorded operations, so an operation that derives its argument from evaluations is visible)
impl Evaluate for OpTag {
    fn evaluate(&self, _x: f64) -> f64 { self.id as f64 }
}
impl HasDerivative for OpTag {
    type DerivativeOf = OpTag;
    fn derivative(&self) -> OpTag { OpTag { derivs: self.derivs + 1, ..*self } }
}
fn op_segments<const N: usize>() -> [Segment<OpTag>; N] {
    // ends are arbitrary f64 here: these operations must not look at them at all
    let z = OpTag { id: 0, muls: 0, negs: 0, trans: 0, derivs: 0, scalar: 0 };
    let mut segs = [Segment { end: 0.0, poly: z }; N];
    let mut i = 0;
    while i < N {
        let e: f64 = kani::any();
        kani::assume(!e.is_nan());
        // ids are symbolic (small) so that neighbouring pieces may be EQUAL: an operation that merges or skips
        // "redundant" pieces is then visible
        let id: u8 = kani::any();
        kani::assume(id < 3);
        segs[i] = Segment { end: e, poly: OpTag { id: id as u32 + 1, ..z } };
        i += 1;
    }
    segs
}
fn check_ops<const N: usize>(orig: &[Segment<OpTag>; N], got: &[Segment<OpTag>], muls: u32, negs: u32, trans: u32, derivs: u32, scalar: u64) {
    assert!(got.len() == N, "[spec] the number of pieces is unchanged");
    let mut i = 0;
    while i < N {
        assert!(got[i].end.to_bits() == orig[i].end.to_bits(), "[spec] every breakpoint is bit-identical and in the same position");
        let p = got[i].poly;
        assert!(p.id == orig[i].poly.id, "[spec] pieces keep their order");
        assert!(p.muls == muls && p.negs == negs && p.trans == trans && p.derivs == derivs, "[spec] the operation is applied to every piece exactly once (and nothing else is)");
        if muls + trans > 0 { assert!(p.scalar == scalar, "[spec] with the given scalar"); }
        i += 1;
    }
}
fn c15_piecewise<const N: usize>(op: u8) {
    let segs = op_segments::<N>();
    let s: f64 = kani::any();
    kani::assume(!s.is_nan());
    let pw = Piecewise { segments: segs.to_vec() };
    match op {
        0 => { let r = pw * s; check_ops(&segs, &r.segments, 1, 0, 0, 0, s.to_bits()); }
        1 => { let mut r = pw; r *= s; check_ops(&segs, &r.segments, 1, 0, 0, 0, s.to_bits()); }
        2 => { let r = -pw; check_ops(&segs, &r.segments, 0, 1, 0, 0, 0); }
        3 => { let mut r = pw; r.translate(s); check_ops(&segs, &r.segments, 0, 0, 1, 0, s.to_bits()); }
        _ => { let r = pw.derivative(); check_ops(&segs, &r.segments, 0, 0, 0, 1, 0); }
    }
    kani::cover!(true, "[cover] the end of the harness is reachable (assumptions are satisfiable)");
}
fn bits_eq(a: f64, b: f64) -> bool { a.to_bits() == b.to_bits() || (a.is_nan() && b.is_nan()) }
/// the same with REAL pieces (Poly1, every finite coefficient, every finite scalar): each piece of the result is bit-identical to the
/// operation applied to that piece alone (on the unchanged tree both sides are the same expression, so this is cheap)
fn c15_piecewise_poly1<const N: usize>(op: u8) {
    let mut segs = [Segment { end: 0.0, poly: Poly1([0.0, 0.0]) }; N];
    let mut i = 0;
    while i < N {
        let (e, a, b): (f64, f64, f64) = (kani::any(), kani::any(), kani::any());
        kani::assume(!e.is_nan() && a.is_finite() && b.is_finite());
        segs[i] = Segment { end: e, poly: Poly1([a, b]) };
        i += 1;
    }
    let s: f64 = kani::any();
    kani::assume(s.is_finite());
    let pw = Piecewise { segments: segs.to_vec() };
    let r = match op {
        0 => pw * s,
        1 => { let mut r = pw; r *= s; r }
        2 => -pw,
        _ => { let mut r = pw; r.translate(s); r }
    };
    assert!(r.segments.len() == N, "[spec] the number of pieces is unchanged");
    let mut i = 0;
    while i < N {
        let want = match op {
            0 => segs[i].poly * s,
            1 => { let mut q = segs[i].poly; q *= s; q }
            2 => -segs[i].poly,
            _ => { let mut q = segs[i].poly; q.translate(s); q }
        };
        assert!(r.segments[i].end.to_bits() == segs[i].end.to_bits(), "[spec] every breakpoint is bit-identical and in the same position");
        assert!(bits_eq(r.segments[i].poly.0[0], want.0[0]) && bits_eq(r.segments[i].poly.0[1], want.0[1]), "[spec] piece i is exactly the operation applied to piece i alone");
        i += 1;
    }
    kani::cover!(true, "[cover] the end of the harness is reachable (assumptions are satisfiable)");
}
// (`*` and `*=` with symbolic products do not finish in CBMC; their per-piece application is covered by the recording pieces above)
#[kani::proof] #[kani::unwind(6)] fn c15_poly1_neg_n3() { c15_piecewise_poly1::<3>(2) }
#[kani::proof] #[kani::unwind(6)] fn c15_poly1_translate_n3() { c15_piecewise_poly1::<3>(3) }
#[kani::proof] #[kani::unwind(6)] fn c15_poly1_translate_n2() { c15_piecewise_poly1::<2>(3) }
macro_rules! c15 { ($($name:ident, $n:expr, $op:expr, $u:expr;)*) => { $( #[kani::proof] #[kani::unwind($u)] fn $name() { c15_piecewise::<$n>($op) } )* } }
c15! {
    c15_mul_n1, 1, 0, 4; c15_mul_n2, 2, 0, 5; c15_mul_n3, 3, 0, 6; c15_mul_n4, 4, 0, 7;
    c15_mulassign_n1, 1, 1, 4; c15_mulassign_n2, 2, 1, 5; c15_mulassign_n3, 3, 1, 6; c15_mulassign_n4, 4, 1, 7;
    c15_neg_n1, 1, 2, 4; c15_neg_n2, 2, 2, 5; c15_neg_n3, 3, 2, 6; c15_neg_n4, 4, 2, 7;
    c15_translate_n1, 1, 3, 4; c15_translate_n2, 2, 3, 5; c15_translate_n3, 3, 3, 6; c15_translate_n4, 4, 3, 7;
    c15_mul_n5, 5, 0, 8; c15_mulassign_n5, 5, 1, 8; c15_neg_n5, 5, 2, 8; c15_translate_n5, 5, 3, 8;
    c15_mul_n8, 8, 0, 11; c15_mulassign_n8, 8, 1, 11; c15_neg_n8, 8, 2, 11; c15_translate_n8, 8, 3, 11;
    c15_mul_n20, 20, 0, 23; c15_mulassign_n20, 20, 1, 23; c15_neg_n20, 20, 2, 23; c15_translate_n20, 20, 3, 23; c08_pwderiv_n20, 20, 4, 23;
    c08_pwderiv_n1, 1, 4, 4; c08_pwderiv_n2, 2, 4, 5; c08_pwderiv_n3, 3, 4, 6; c08_pwderiv_n4, 4, 4, 7;
}
/// Segment-level operations (loop-free: complete).
#[kani::proof]
fn c15_segment_ops() {
    let segs = op_segments::<1>();
    let s: f64 = kani::any();
    kani::assume(!s.is_nan());
    let seg = segs[0];
    let r = seg * s;
    check_ops(&segs, &[r], 1, 0, 0, 0, s.to_bits());
    let mut r = seg;
    r *= s;
    check_ops(&segs, &[r], 1, 0, 0, 0, s.to_bits());
    let mut r = seg;
    { let mut rr = &mut r; rr *= s; }
    check_ops(&segs, &[r], 1, 0, 0, 0, s.to_bits());
    let mut r = seg;
    r.translate(s);
    check_ops(&segs, &[r], 0, 0, 1, 0, s.to_bits());
    let r = seg.derivative();
    check_ops(&segs, &[r], 0, 0, 0, 1, 0);
    kani::cover!(true, "[cover] the end of the harness is reachable (assumptions are satisfiable)");
}

// =============================================================================================
// C11: piecewise integration wiring.  STag integrates to ITag{id,k}; ITag::evaluate(x) = k + id (exact on the small
// integers used) and logs (id, x) so the harness sees which knot every piece received.
// =============================================================================================
#[derive(Clone, Copy, Debug, PartialEq)]
pub struct STag(pub u32);
#[derive(Clone, Copy, Debug, PartialEq)]
pub struct ITag { pub id: u32, pub k: f64, pub trans: u32 }
static mut ILOG_ID: [u32; 48] = [0; 48];
static mut ILOG_X: [u64; 48] = [0; 48];
static mut ILOG_N: usize = 0;
impl Evaluate for ITag {
    fn evaluate(&self, x: f64) -> f64 {
        unsafe {
            if ILOG_N < 48 { ILOG_ID[ILOG_N] = self.id; ILOG_X[ILOG_N] = x.to_bits(); }
            ILOG_N += 1;
        }
        self.k + (self.id as f64) * unsafe { ISCALE }
    }
}
impl Translate for ITag {
    fn translate(&mut self, v: f64) { self.k += v; self.trans += 1; }
}
impl HasIntegral for STag {
    type IntegralOf = ITag;
    fn indefinite(&self) -> ITag { ITag { id: self.0, k: 0.0, trans: 0 } }
    fn integral(&self, knot: Knot) -> ITag {
        let mut indef = self.indefinite();
        indef.translate(knot.y - indef.evaluate(knot.x));
        indef
    }
}
fn s_segments<const N: usize>() -> [Segment<STag>; N] {
    let mut segs = [Segment { end: 0.0, poly: STag(0) }; N];
    let mut i = 0;
    while i < N {
        let e: f64 = kani::any();
        kani::assume(!e.is_nan());
        segs[i] = Segment { end: e, poly: STag(i as u32 + 1) };
        i += 1;
    }
    segs
}
/// expected log and result of the chain: piece i gets knot (end_{i-1}, F_{i-1}(end_{i-1})), piece 0 gets knot0
fn check_chain<const N: usize>(segs: &[Segment<STag>; N], got: &[Segment<ITag>], first: usize, x0: f64, y0: f64) {
    // `first` = index of the first piece that was integrated through a knot (0 for integral, 1 for indefinite)
    assert!(got.len() == N, "[spec] same number of pieces");
    let mut i = 0;
    let mut log = 0usize;
    while i < N {
        assert!(got[i].end.to_bits() == segs[i].end.to_bits(), "[spec] same breakpoints, bit for bit, same order");
        assert!(got[i].poly.id == segs[i].poly.0, "[spec] piece i is an antiderivative of piece i");
        if i >= first {
            // value of every piece at any x is y0 (k + id == y0): adjacent pieces agree at the interior breakpoints
            assert!(got[i].poly.k + (got[i].poly.id as f64) * unsafe { ISCALE } == y0, "[spec] adjacent pieces agree in value at the breakpoint; the first passes through the knot");
            assert!(got[i].poly.trans == 1, "[spec] each piece is shifted exactly once");
            let want_x = if i == first { x0 } else { segs[i - 1].end };
            unsafe {
                assert!(ILOG_ID[log] == segs[i].poly.0 && ILOG_X[log] == want_x.to_bits(), "[spec] piece i is anchored at the previous breakpoint (piece 0 at knot.x)");
                assert!(ILOG_ID[log + 1] == segs[i].poly.0 && ILOG_X[log + 1] == segs[i].end.to_bits(), "[spec] the next knot is taken at this piece's own end");
            }
            log += 2;
        }
        i += 1;
    }
    unsafe { assert!(ILOG_N == log, "[spec] no other evaluations"); }
}
fn small_int() -> f64 { let v: i8 = kani::any(); kani::assume(v > -100 && v < 100); v as f64 }
/// SCALE used by ITag::evaluate: 1.0 normally; 2^-60 in the tiny-magnitude variant (all values stay exact multiples of 2^-60,
/// so a shift that is skipped "because it is below some absolute tolerance" is visible)
static mut ISCALE: f64 = 1.0;
fn c11_integral<const N: usize>(which: u8) {
    c11_integral_scaled::<N>(which, 1.0)
}
fn c11_integral_scaled<const N: usize>(which: u8, scale: f64) {
    unsafe { ISCALE = scale; }
    let segs = s_segments::<N>();
    let x0: f64 = kani::any();
    kani::assume(!x0.is_nan());
    let y0 = small_int() * scale;
    let knot = Knot { x: x0, y: y0 };
    unsafe { ILOG_N = 0; }
    match which {
        0 => { let r = Piecewise { segments: segs.to_vec() }.integral(knot); check_chain(&segs, &r.segments, 0, x0, y0); }
        1 => { let r: Vec<Segment<ITag>> = Segment::integral_iter_ref(segs.iter(), knot).collect(); check_chain(&segs, &r, 0, x0, y0); }
        2 => { let r: Vec<Segment<ITag>> = Segment::integral_iter(segs.to_vec(), knot).collect(); check_chain(&segs, &r, 0, x0, y0); }
        4 => {
            // the same through an iterator whose size hint is inexact (filter): the pieces must not depend on it
            let r: Vec<Segment<ITag>> = Segment::integral_iter(segs.to_vec().into_iter().filter(|s| s.poly.0 > 0), knot).collect();
            check_chain(&segs, &r, 0, x0, y0);
        }
        5 => {
            let r: Vec<Segment<ITag>> = Segment::integral_iter_ref(segs.iter().filter(|s| s.poly.0 > 0), knot).collect();
            check_chain(&segs, &r, 0, x0, y0);
        }
        6 | 7 => {
            // consumed with `nth` instead of `next`/`collect`: the running knot must still be threaded through the skipped pieces
            let last = if which == 6 { Segment::integral_iter(segs.to_vec(), knot).nth(N - 1).unwrap() } else { Segment::integral_iter_ref(segs.iter(), knot).nth(N - 1).unwrap() };
            assert!(last.end.to_bits() == segs[N - 1].end.to_bits() && last.poly.id == segs[N - 1].poly.0, "[spec] nth(N-1) is the integral of the last piece");
            assert!(last.poly.k + (last.poly.id as f64) * unsafe { ISCALE } == y0 && last.poly.trans == 1, "[spec] adjacent pieces agree in value at the breakpoint");
            unsafe {
                assert!(ILOG_N >= 2, "[spec] the returned piece was integrated through a knot");
                let want_x = if N == 1 { x0 } else { segs[N - 2].end };
                // the last integration logged: anchor evaluation of the returned piece, then the evaluation at its own end for the next knot
                assert!(ILOG_ID[ILOG_N - 2] == segs[N - 1].poly.0 && ILOG_X[ILOG_N - 2] == want_x.to_bits(), "[spec] the returned piece is anchored at the previous breakpoint (the running knot is threaded through skipped pieces)");
            }
        }
        _ => {
            // indefinite(): first piece untranslated (constant 0), the rest chained from (end_0, F_0(end_0))
            let r = Piecewise { segments: segs.to_vec() }.indefinite();
            assert!(r.segments.len() == N);
            assert!(r.segments[0].poly.k == 0.0 && r.segments[0].poly.trans == 0, "[spec] indefinite(): the first piece's additive constant is zero");
            assert!(r.segments[0].end.to_bits() == segs[0].end.to_bits() && r.segments[0].poly.id == 1);
            // F_0(end_0) = 0 + id_0 = 1 ; logged as the first evaluation
            unsafe { assert!(ILOG_ID[0] == 1 && ILOG_X[0] == segs[0].end.to_bits(), "[spec] the chain starts at the first piece's own end"); }
            let mut i = 1;
            let mut log = 1usize;
            while i < N {
                assert!(r.segments[i].end.to_bits() == segs[i].end.to_bits() && r.segments[i].poly.id == segs[i].poly.0, "[spec] same breakpoints and order");
                assert!(r.segments[i].poly.k + (r.segments[i].poly.id as f64) * unsafe { ISCALE } == 1.0 * unsafe { ISCALE }, "[spec] adjacent pieces agree at the breakpoints");
                unsafe {
                    assert!(ILOG_ID[log] == segs[i].poly.0 && ILOG_X[log] == segs[i - 1].end.to_bits(), "[spec] piece i anchored at the previous breakpoint");
                    assert!(ILOG_ID[log + 1] == segs[i].poly.0 && ILOG_X[log + 1] == segs[i].end.to_bits());
                }
                log += 2;
                i += 1;
            }
        }
    }
    kani::cover!(true, "[cover] the end of the harness is reachable (assumptions are satisfiable)");
}
macro_rules! c11 { ($($name:ident, $n:expr, $w:expr, $u:expr;)*) => { $( #[kani::proof] #[kani::unwind($u)] fn $name() { c11_integral::<$n>($w) } )* } }
c11! {
    c11_integral_n1, 1, 0, 4; c11_integral_n2, 2, 0, 5; c11_integral_n3, 3, 0, 6; c11_integral_n4, 4, 0, 7;
    c11_iter_ref_n1, 1, 1, 4; c11_iter_ref_n2, 2, 1, 5; c11_iter_ref_n3, 3, 1, 6; c11_iter_ref_n4, 4, 1, 7;
    c11_iter_n1, 1, 2, 4; c11_iter_n2, 2, 2, 5; c11_iter_n3, 3, 2, 6; c11_iter_n4, 4, 2, 7;
    c11_indefinite_n1, 1, 3, 4; c11_indefinite_n2, 2, 3, 5; c11_indefinite_n3, 3, 3, 6; c11_indefinite_n4, 4, 3, 7;
}
#[kani::proof] #[kani::unwind(23)] fn c11_integral_n20() { c11_integral::<20>(0) }
#[kani::proof] #[kani::unwind(23)] fn c11_indefinite_n20() { c11_integral::<20>(3) }
#[kani::proof] #[kani::unwind(23)] fn c11_iter_n20() { c11_integral::<20>(2) }
const TINY: f64 = 8.673617379884035e-19; // 2^-60
#[kani::proof] #[kani::unwind(6)] fn c11_integral_tiny_n3() { c11_integral_scaled::<3>(0, TINY) }
#[kani::proof] #[kani::unwind(6)] fn c11_iter_tiny_n2() { c11_integral_scaled::<2>(2, TINY) }
#[kani::proof] #[kani::unwind(6)] fn c11_indefinite_tiny_n3() { c11_integral_scaled::<3>(3, TINY) }
#[kani::proof] #[kani::unwind(6)] fn c11_iter_filter_n3() { c11_integral::<3>(4) }
#[kani::proof] #[kani::unwind(6)] fn c11_iter_ref_filter_n3() { c11_integral::<3>(5) }
#[kani::proof] #[kani::unwind(6)] fn c11_iter_nth_n3() { c11_integral::<3>(6) }
#[kani::proof] #[kani::unwind(6)] fn c11_iter_ref_nth_n3() { c11_integral::<3>(7) }
#[kani::proof]
#[kani::unwind(3)]
fn c11_empty() {
    let p: Piecewise<STag> = Piecewise { segments: Vec::new() };
    let y0 = small_int();
    assert!(p.integral(Knot { x: 0.0, y: y0 }).segments.is_empty(), "[spec] empty input gives empty output");
    assert!(p.indefinite().segments.is_empty(), "[spec] empty input gives empty output");
    kani::cover!(true, "[cover] the end of the harness is reachable (assumptions are satisfiable)");
}

// =============================================================================================
// C17: approximate equality of segments and piecewise functions is number-by-number (ends and coefficients), and
// piecewise functions with different numbers of pieces are never approximately equal.
// =============================================================================================
fn small_f() -> f64 { let v: i8 = kani::any(); kani::assume(v >= -100 && v <= 100); v as f64 }
const TOLS: [f64; 2] = [0.0, 1.0];
fn tiny_any() -> f64 { let v: i8 = kani::any(); kani::assume(v >= -8 && v <= 8); v as f64 }
fn c17_pw<const N: usize, const M: usize>() {
    let mut a = [Segment { end: 0.0, poly: Poly1([0.0, 0.0]) }; N];
    let mut b = [Segment { end: 0.0, poly: Poly1([0.0, 0.0]) }; M];
    let mut i = 0;
    while i < N { a[i] = Segment { end: tiny_any(), poly: Poly1([tiny_any(), tiny_any()]) }; i += 1; }
    let mut i = 0;
    while i < M { b[i] = Segment { end: tiny_any(), poly: Poly1([tiny_any(), tiny_any()]) }; i += 1; }
    let (pa, pb) = (Piecewise { segments: a.to_vec() }, Piecewise { segments: b.to_vec() });
    let mut ei = 0;
    while ei < TOLS.len() {
        let eps = TOLS[ei];
        let mut want = N == M;
        let mut wantr = N == M;
        let mut i = 0;
        while i < N && i < M {
            let s = a[i].end.abs_diff_eq(&b[i].end, eps) && a[i].poly.0[0].abs_diff_eq(&b[i].poly.0[0], eps) && a[i].poly.0[1].abs_diff_eq(&b[i].poly.0[1], eps);
            assert!(a[i].abs_diff_eq(&b[i], eps) == s, "[spec] Segment: abs_diff_eq over the breakpoint and every coefficient");
            let sr = a[i].end.relative_eq(&b[i].end, eps, 0.5) && a[i].poly.0[0].relative_eq(&b[i].poly.0[0], eps, 0.5) && a[i].poly.0[1].relative_eq(&b[i].poly.0[1], eps, 0.5);
            assert!(a[i].relative_eq(&b[i], eps, 0.5) == sr, "[spec] Segment: relative_eq over the breakpoint and every coefficient");
            want = want && s;
            wantr = wantr && sr;
            i += 1;
        }
        assert!(pa.abs_diff_eq(&pb, eps) == want, "[spec] Piecewise: same number of pieces and every corresponding number approximately equal");
        assert!(pa.relative_eq(&pb, eps, 0.5) == wantr, "[spec] Piecewise relative_eq: same number of pieces and every corresponding number");
        ei += 1;
    }
    kani::cover!(true, "[cover] reachable");
}
#[kani::proof] #[kani::unwind(6)] fn c17_pw_1_1() { c17_pw::<1, 1>() }
#[kani::proof] #[kani::unwind(6)] fn c17_pw_2_2() { c17_pw::<2, 2>() }
#[kani::proof] #[kani::unwind(6)] fn c17_pw_1_2() { c17_pw::<1, 2>() }
#[kani::proof] #[kani::unwind(6)] fn c17_pw_2_1() { c17_pw::<2, 1>() }
#[kani::proof] #[kani::unwind(6)] fn c17_pw_0_1() { c17_pw::<0, 1>() }
#[kani::proof] #[kani::unwind(6)] fn c17_pw_0_0() { c17_pw::<0, 0>() }
#[kani::proof] #[kani::unwind(6)] fn c17_pw_3_3() { c17_pw::<3, 3>() }
