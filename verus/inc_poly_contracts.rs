// ---- traits (signatures checked against /repo) and assumed contracts of the polynomial kernels ------------------
//@trait file=src/poly.rs name=Evaluate
pub trait Evaluate {
    spec fn wf(&self) -> bool;
    spec fn dom(&self, x: real) -> bool;
    spec fn ev_r(&self, x: real) -> real;
    fn evaluate(&self, v: f64) -> (r: f64)
        requires self.wf(), fin(v), self.dom(rv(v)),
        ensures fin(r), rv(r) == self.ev_r(rv(v));
}
//@trait file=src/poly.rs name=HasIntegral
pub trait HasIntegral
where
    Self::IntegralOf: Evaluate,
{
    type IntegralOf;
    spec fn i_wf(&self) -> bool;
    fn indefinite(&self) -> (r: Self::IntegralOf)
        requires self.i_wf();
    fn integral(&self, knot: Knot) -> (r: Self::IntegralOf)
        requires self.i_wf(), fin(knot.x), fin(knot.y);
}
//@trait file=src/poly.rs name=Translate
pub trait Translate {
    spec fn t_wf(&self) -> bool;
    fn translate(&mut self, v: f64)
        requires old(self).t_wf(), fin(v);
}
impl Evaluate for Poly0 {
    open spec fn wf(&self) -> bool { fin(self.0) }
    open spec fn dom(&self, x: real) -> bool { true }
    open spec fn ev_r(&self, x: real) -> real { rv(self.0) * pw(x, 0nat) }
//@extract file=src/poly.rs impl="impl Evaluate for Poly0" fn=evaluate mode=contract-only props=none
//@end
}
impl Evaluate for Poly1 {
    open spec fn wf(&self) -> bool { all_fin(self.0@) }
    open spec fn dom(&self, x: real) -> bool { true }
    open spec fn ev_r(&self, x: real) -> real { polyval(self.0@, x) }
//@extract file=src/poly.rs impl="impl Evaluate for Poly1" fn=evaluate mode=contract-only props=none
//@end
}
impl Translate for Poly1 {
    open spec fn t_wf(&self) -> bool { all_fin(self.0@) }
//@extract file=src/poly.rs impl="impl Translate for Poly1" fn=translate mode=contract-only props=none
//@contract
        ensures all_fin(final(self).0@), rv(final(self).0[0]) == rv(old(self).0[0]) + rv(v),
                forall|i: int| 1 <= i < 2 ==> final(self).0[i] == old(self).0[i],
//@end
}
impl Evaluate for Poly2 {
    open spec fn wf(&self) -> bool { all_fin(self.0@) }
    open spec fn dom(&self, x: real) -> bool { true }
    open spec fn ev_r(&self, x: real) -> real { polyval(self.0@, x) }
//@extract file=src/poly.rs impl="impl Evaluate for Poly2" fn=evaluate mode=contract-only props=none
//@end
}
impl Translate for Poly2 {
    open spec fn t_wf(&self) -> bool { all_fin(self.0@) }
//@extract file=src/poly.rs impl="impl Translate for Poly2" fn=translate mode=contract-only props=none
//@contract
        ensures all_fin(final(self).0@), rv(final(self).0[0]) == rv(old(self).0[0]) + rv(v),
                forall|i: int| 1 <= i < 3 ==> final(self).0[i] == old(self).0[i],
//@end
}
impl Evaluate for Poly3 {
    open spec fn wf(&self) -> bool { all_fin(self.0@) }
    open spec fn dom(&self, x: real) -> bool { true }
    open spec fn ev_r(&self, x: real) -> real { polyval(self.0@, x) }
//@extract file=src/poly.rs impl="impl Evaluate for Poly3" fn=evaluate mode=contract-only props=none
//@end
}
impl Translate for Poly3 {
    open spec fn t_wf(&self) -> bool { all_fin(self.0@) }
//@extract file=src/poly.rs impl="impl Translate for Poly3" fn=translate mode=contract-only props=none
//@contract
        ensures all_fin(final(self).0@), rv(final(self).0[0]) == rv(old(self).0[0]) + rv(v),
                forall|i: int| 1 <= i < 4 ==> final(self).0[i] == old(self).0[i],
//@end
}
impl HasIntegral for Poly0 {
    type IntegralOf = Poly1;
    open spec fn i_wf(&self) -> bool { fin(self.0) }
//@extract file=src/poly.rs impl="impl HasIntegral for Poly0" fn=indefinite mode=contract-only props=none
//@contract
        ensures all_fin(r.0@), rv(r.0[0]) == 0real && rv(r.0[1]) == rv(self.0) / 1real,
//@end
//@extract file=src/poly.rs impl="impl HasIntegral for Poly0" fn=integral mode=contract-only props=none
//@end
}
