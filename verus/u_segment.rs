// Unit u_segment: the generic Segment<T> operations (C11 per-piece claim, C15/C08 segment level), real bodies, abstract piece type.
// The piece type's own operations appear through their trait contracts only.
#![allow(unused_imports, unused_variables, dead_code, non_snake_case, unused_mut)]
use vstd::prelude::*;
use vstd::std_specs::ops::*;
use std::ops::{Mul, MulAssign};
//@include prelude_fm.rs
//@include prelude_types.rs
//@literals
verus! {
use fm::*;
use ty::*;
broadcast use {fm::float_bits, fm::float_real, lits::literals, ty::typed};

//@trait file=src/poly.rs name=Evaluate
pub trait Evaluate {
    spec fn wf(&self) -> bool;
    spec fn dom(&self, x: real) -> bool;
    spec fn ev_r(&self, x: real) -> real;
    fn evaluate(&self, v: f64) -> (r: f64)
        requires self.wf(), fin(v), self.dom(rv(v)),
        ensures fin(r), rv(r) == self.ev_r(rv(v));
}
// In /repo `Translate` has no supertrait; every type that implements it also implements `Evaluate`, and the contract below
// (translate shifts the value at every point by v and nothing else) needs the value function, hence the bound here.
//@trait file=src/poly.rs name=Translate
pub trait Translate: Evaluate + Sized {
    /// post is pre moved vertically by c: same domain, value raised by c at every point (lemma_shifted), nothing else changed
    spec fn shifted_by(pre: &Self, post: &Self, c: real) -> bool;
    proof fn lemma_shifted(pre: &Self, post: &Self, c: real, x: real)
        requires Self::shifted_by(pre, post, c), pre.dom(x),
        ensures post.dom(x), post.ev_r(x) == pre.ev_r(x) + c;
    proof fn lemma_shifted_refl(p: &Self)
        ensures Self::shifted_by(p, p, 0real);
    fn translate(&mut self, v: f64)
        requires old(self).wf(), fin(v),
        ensures final(self).wf(), Self::shifted_by(old(self), final(self), rv(v));
}
//@trait file=src/poly.rs name=HasDerivative
pub trait HasDerivative {
    type DerivativeOf;
    /// r is the derivative of self (abstract: what that means for a concrete piece type is C08)
    spec fn deriv_of(&self, r: Self::DerivativeOf) -> bool;
    fn derivative(&self) -> (r: Self::DerivativeOf)
        ensures self.deriv_of(r);
}
//@trait file=src/poly.rs name=HasIntegral
pub trait HasIntegral
where
    Self::IntegralOf: Evaluate,
{
    type IntegralOf;
    spec fn i_wf(&self) -> bool;
    /// r is the indefinite integral of self with zero additive constant (abstract: C07 / C09 for concrete piece types)
    spec fn indef_of(&self, r: Self::IntegralOf) -> bool;
    /// r differs from the indefinite integral of self by an additive constant only
    spec fn antideriv_of(&self, r: Self::IntegralOf) -> bool;
    /// the domain on which the antiderivative may be evaluated
    spec fn i_dom(&self, x: real) -> bool;
    fn indefinite(&self) -> (r: Self::IntegralOf)
        requires self.i_wf(),
        ensures self.indef_of(r), self.antideriv_of(r), r.wf(), forall|x: real| self.i_dom(x) ==> #[trigger] r.dom(x);
    fn integral(&self, knot: Knot) -> (r: Self::IntegralOf)
        requires self.i_wf(), fin(knot.x), fin(knot.y), self.i_dom(rv(knot.x)),
        ensures self.antideriv_of(r), r.wf(), r.dom(rv(knot.x)), r.ev_r(rv(knot.x)) == rv(knot.y);
}

/// i0 is the indefinite integral of p and r is i0 moved vertically by c
pub open spec fn shift_of<T: HasIntegral>(p: T, r: T::IntegralOf, i0: T::IntegralOf, c: real) -> bool where T::IntegralOf: Translate {
    p.indef_of(i0) && <T::IntegralOf as Translate>::shifted_by(&i0, &r, c)
}

impl<T: Evaluate> Evaluate for Segment<T> {
    open spec fn wf(&self) -> bool { self.poly.wf() }
    open spec fn dom(&self, x: real) -> bool { self.poly.dom(x) }
    open spec fn ev_r(&self, x: real) -> real { self.poly.ev_r(x) }
//@extract file=src/piecewise.rs impl="impl<T: Evaluate> Evaluate for Segment<T>" fn=evaluate props=C11,C15
//@end
}

impl<T: Translate> Translate for Segment<T> {
    open spec fn shifted_by(pre: &Self, post: &Self, c: real) -> bool { pre.end == post.end && T::shifted_by(&pre.poly, &post.poly, c) }
    proof fn lemma_shifted(pre: &Self, post: &Self, c: real, x: real) { T::lemma_shifted(&pre.poly, &post.poly, c, x); }
    proof fn lemma_shifted_refl(p: &Self) { T::lemma_shifted_refl(&p.poly); }
//@extract file=src/piecewise.rs impl="impl<T: Translate> Translate for Segment<T>" fn=translate props=C11,C15
//@end
}

impl<T: HasDerivative> HasDerivative for Segment<T> {
    type DerivativeOf = Segment<T::DerivativeOf>;
    open spec fn deriv_of(&self, r: Self::DerivativeOf) -> bool { r.end == self.end && self.poly.deriv_of(r.poly) }
//@extract file=src/piecewise.rs impl="impl<T: HasDerivative> HasDerivative for Segment<T>" fn=derivative props=C08,C15
//@end
}

impl<T> HasIntegral for Segment<T>
where
    T: HasIntegral,
    T::IntegralOf: Translate,
{
    type IntegralOf = Segment<T::IntegralOf>;
    open spec fn i_wf(&self) -> bool { self.poly.i_wf() }
    open spec fn indef_of(&self, r: Self::IntegralOf) -> bool { r.end == self.end && self.poly.indef_of(r.poly) }
    /// same breakpoint; the piece is the indefinite integral of the piece, shifted by a constant
    open spec fn antideriv_of(&self, r: Self::IntegralOf) -> bool {
        r.end == self.end && exists|i0: T::IntegralOf, c: real| #[trigger] shift_of(self.poly, r.poly, i0, c)
    }
    open spec fn i_dom(&self, x: real) -> bool { self.poly.i_dom(x) }
//@extract file=src/piecewise.rs impl="impl<T> HasIntegral for Segment<T> where T: HasIntegral, T::IntegralOf: Translate," fn=indefinite props=C11
//@tailproof
        let i0 = __r.poly;
        <T::IntegralOf as Translate>::lemma_shifted_refl(&i0);
        assert(shift_of(self.poly, __r.poly, i0, 0real));
//@end
//@extract file=src/piecewise.rs impl="impl<T> HasIntegral for Segment<T> where T: HasIntegral, T::IntegralOf: Translate," fn=integral props=C11
//@sub indef.translate( =====> let ghost __pre = indef; indef.translate(
//@tailproof
        let c = rv(knot.y) - __pre.poly.ev_r(rv(knot.x));
        assert(self.poly.indef_of(__pre.poly));
        assert(shift_of(self.poly, __r.poly, __pre.poly, c));
        <Segment<T::IntegralOf> as Translate>::lemma_shifted(&__pre, &__r, c, rv(knot.x));
//@end
}

// ---- C11: the two segment-integration iterators.  The closure they return is a state machine over the captured running knot; vgen rule 14
// extracts its body as a step function.  Step contract: the produced piece is an antiderivative of the input piece through the incoming knot,
// keeps its breakpoint, and the outgoing knot is (end, F(end)) - so the next piece starts where this one stops (continuity at every interior
// breakpoint, by induction over the list, any length, any piece type).  Both iterators have the same step contract (identical pieces).
/// the data precondition of one step: the piece is integrable at the incoming knot and every antiderivative of it is defined at its end
/// (polynomials: always; log-polynomials: positive breakpoints)
pub open spec fn step_pre<T: HasIntegral>(seg: Segment<T>, k: Knot) -> bool where T::IntegralOf: Translate {
    seg.i_wf() && fin(k.x) && fin(k.y) && seg.i_dom(rv(k.x)) && fin(seg.end)
    && forall|r: Segment<T::IntegralOf>| #[trigger] seg.antideriv_of(r) && r.wf() ==> r.dom(rv(seg.end))
}
pub open spec fn step_post<T: HasIntegral>(seg: Segment<T>, k: Knot, f: Segment<T::IntegralOf>, k1: Knot) -> bool where T::IntegralOf: Translate {
    seg.antideriv_of(f) && f.wf() && f.end == seg.end
    && f.dom(rv(k.x)) && f.ev_r(rv(k.x)) == rv(k.y)                          // through the incoming knot
    && k1.x == f.end && fin(k1.y) && f.dom(rv(f.end)) && rv(k1.y) == f.ev_r(rv(f.end))   // outgoing knot = (end, F(end))
}
/// continuity at an interior breakpoint: two consecutive steps agree in value at the first piece's end
pub proof fn lemma_c11_continuous<T: HasIntegral>(s1: Segment<T>, s2: Segment<T>, k0: Knot, f1: Segment<T::IntegralOf>, k1: Knot, f2: Segment<T::IntegralOf>, k2: Knot)
    where T::IntegralOf: Translate
    requires step_post(s1, k0, f1, k1), step_post(s2, k1, f2, k2),
    ensures f2.ev_r(rv(s1.end)) == f1.ev_r(rv(s1.end)), f1.end == s1.end, f2.end == s2.end,
{}

impl<T> Segment<T>
where
    T: HasIntegral,
    T::IntegralOf: Translate,
{
//@extract file=src/piecewise.rs impl="impl<T> Segment<T>" fn=integral_iter_ref props=C11 ret=out rename=int=>int_ closure="segments.into_iter().map(move |seg| {" state=knot wrapsha=da2c3a78e5693704 stepsig="fn integral_iter_ref_step(seg: &Segment<T>, knot0: Knot) -> (out: (Segment<T::IntegralOf>, Knot))"
//@contract
        requires step_pre(*seg, knot0),
        ensures step_post(*seg, knot0, out.0, out.1),
//@end
//@extract file=src/piecewise.rs impl="impl<T> Segment<T>" fn=integral_iter props=C11 ret=out rename=int=>int_ closure="segments.into_iter().map(move |seg| {" state=knot wrapsha=da2c3a78e5693704 stepsig="fn integral_iter_step(seg: Segment<T>, knot0: Knot) -> (out: (Segment<T::IntegralOf>, Knot))"
//@contract
        requires step_pre(seg, knot0),
        ensures step_post(seg, knot0, out.0, out.1),
//@end
}


} // verus!
fn main() {}
