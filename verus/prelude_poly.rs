// ===== spec vocabulary for polynomials ==========================================================
// polyval(c, X) = sum_{i < len c} rv(c[i]) * X^i      (the property statement's own formula)
pub open spec fn pw(x: real, n: nat) -> real
    decreases n
{
    if n == 0 { 1real } else { x * pw(x, (n - 1) as nat) }
}

pub open spec fn psum(c: Seq<f64>, x: real, n: nat) -> real
    decreases n
{
    if n == 0 { 0real } else { psum(c, x, (n - 1) as nat) + rv(c[n - 1]) * pw(x, (n - 1) as nat) }
}

pub open spec fn polyval(c: Seq<f64>, x: real) -> real {
    psum(c, x, c.len())
}

pub open spec fn all_fin(c: Seq<f64>) -> bool {
    forall|i: int| 0 <= i < c.len() ==> fin(#[trigger] c[i])
}

pub proof fn lemma_pw01(x: real)
    ensures pw(x, 0nat) == 1real, pw(x, 1nat) == x,
{
    reveal_with_fuel(pw, 3);
}

pub proof fn lemma_pw_mul(x: real, j: nat, k: nat)
    ensures pw(x, j) * pw(x, k) == pw(x, j + k),
    decreases j,
{
    if j == 0 {
        assert(pw(x, 0nat) == 1real);
        assert(pw(x, 0nat) * pw(x, k) == pw(x, k)) by(nonlinear_arith) requires pw(x, 0nat) == 1real;
    } else {
        lemma_pw_mul(x, (j - 1) as nat, k);
        let a = pw(x, (j - 1) as nat);
        let b = pw(x, k);
        let c = pw(x, (j - 1 + k) as nat);
        assert(pw(x, j) == x * a);
        assert(pw(x, j + k) == x * c);
        assert((x * a) * b == x * c) by(nonlinear_arith) requires a * b == c;
    }
}

/// if x*y == 1 then pw(x,n)*pw(y,n) == 1
pub proof fn lemma_pw_recip(x: real, y: real, n: nat)
    requires x * y == 1real,
    ensures pw(x, n) * pw(y, n) == 1real,
    decreases n,
{
    if n == 0 {
        assert(pw(x, 0nat) == 1real && pw(y, 0nat) == 1real);
    } else {
        lemma_pw_recip(x, y, (n - 1) as nat);
        let a = pw(x, (n - 1) as nat);
        let b = pw(y, (n - 1) as nat);
        assert(pw(x, n) == x * a);
        assert(pw(y, n) == y * b);
        assert((x * a) * (y * b) == 1real) by(nonlinear_arith) requires x * y == 1real, a * b == 1real;
    }
}

pub proof fn lemma_pw_nonzero(x: real, n: nat)
    requires x != 0real,
    ensures pw(x, n) != 0real,
    decreases n,
{
    if n > 0 {
        lemma_pw_nonzero(x, (n - 1) as nat);
        let a = pw(x, (n - 1) as nat);
        assert(x * a != 0real) by(nonlinear_arith) requires x != 0real, a != 0real;
    }
}
