// Unit u_fme_lemmas: error propagation through one rounded product / fused multiply-add in the standard model
//   fl(a op b) = (a op b)(1 + d), |d| <= u = 2^-53
// with invariant  |v - E| <= g(k) M,  |E| <= M   (E the exact value, M the sum of the magnitudes of its terms).
// Inequality reasoning: Verus' own nonlinear options (//@plain-nl); the two identities come from unit u_fme_ident.
//@plain-nl
#![allow(unused_imports, unused_variables, dead_code, non_snake_case)]
use vstd::prelude::*;
verus! {
pub uninterp spec fn rv(x: f64) -> real;
pub uninterp spec fn fin(x: f64) -> bool;
//@include prelude_poly.rs
//@include prelude_err.rs

//@assume-lemma file=u_fme_ident.rs name=id_pu_mul
//@assume-lemma file=u_fme_ident.rs name=id_err_mul

pub proof fn lemma_pu_ge1(k: nat) ensures pu(k) >= 1real decreases k
{
    if k > 0 {
        lemma_pu_ge1((k - 1) as nat);
        let p = pu((k - 1) as nat);
        assert(pu(k) == (1real + uu()) * p);
        assert((1real + uu()) * p >= 1real) by(nonlinear_arith) requires p >= 1real, uu() > 0real;
    }
}
pub proof fn lemma_pu_mono(j: nat, k: nat) requires j <= k ensures pu(j) <= pu(k) decreases k - j
{
    if j < k {
        lemma_pu_mono(j, (k - 1) as nat);
        lemma_pu_ge1((k - 1) as nat);
        let p = pu((k - 1) as nat);
        assert(pu(k) == (1real + uu()) * p);
        assert((1real + uu()) * p >= p) by(nonlinear_arith) requires p >= 1real, uu() > 0real;
    }
}
pub proof fn lemma_ab_mul(x: real, y: real) ensures ab(x * y) == ab(x) * ab(y)
{
    if x >= 0real && y >= 0real { assert(x * y >= 0real) by(nonlinear_arith) requires x >= 0real, y >= 0real; }
    else if x >= 0real && y < 0real { assert(x * y <= 0real) by(nonlinear_arith) requires x >= 0real, y < 0real; assert(x * (-y) == -(x * y)) by(nonlinear_arith); }
    else if x < 0real && y >= 0real { assert(x * y <= 0real) by(nonlinear_arith) requires x < 0real, y >= 0real; assert((-x) * y == -(x * y)) by(nonlinear_arith); }
    else { assert(x * y > 0real) by(nonlinear_arith) requires x < 0real, y < 0real; assert((-x) * (-y) == x * y) by(nonlinear_arith); }
}
pub proof fn lemma_ab_tri(x: real, y: real) ensures ab(x + y) <= ab(x) + ab(y) { }
pub proof fn lemma_mul_le(a: real, b: real, c: real, d: real)
    requires 0real <= a <= c, 0real <= b <= d ensures a * b <= c * d
{ assert(a * b <= c * d) by(nonlinear_arith) requires 0real <= a <= c, 0real <= b <= d; }

/// product: |a - A| <= g(ka) MA, |A| <= MA, same for b  ==>  |ab - AB| <= g(ka+kb) MA MB  and |AB| <= MA MB
pub proof fn lemma_prod_err(a: real, aa: real, ma: real, ka: nat, b: real, bb: real, mb: real, kb: nat)
    requires ab(a - aa) <= g(ka) * ma, ab(aa) <= ma, ab(b - bb) <= g(kb) * mb, ab(bb) <= mb,
    ensures ab(a * b - aa * bb) <= g(ka + kb) * (ma * mb), ab(aa * bb) <= ma * mb,
{
    lemma_pu_ge1(ka); lemma_pu_ge1(kb);
    let (ga, gb) = (g(ka), g(kb));
    assert(ga >= 0real && gb >= 0real);
    assert(ma >= 0real && mb >= 0real);
    id_err_mul(a, aa, b, bb);
    let (da, db) = (a - aa, b - bb);
    lemma_ab_mul(da, bb); lemma_ab_mul(aa, db); lemma_ab_mul(da, db); lemma_ab_mul(aa, bb);
    lemma_ab_tri(da * bb + aa * db, da * db); lemma_ab_tri(da * bb, aa * db);
    assert(ga * ma >= 0real) by(nonlinear_arith) requires ga >= 0real, ma >= 0real;
    assert(gb * mb >= 0real) by(nonlinear_arith) requires gb >= 0real, mb >= 0real;
    lemma_mul_le(ab(da), ab(bb), ga * ma, mb);
    lemma_mul_le(ab(aa), ab(db), ma, gb * mb);
    lemma_mul_le(ab(da), ab(db), ga * ma, gb * mb);
    lemma_mul_le(ab(aa), ab(bb), ma, mb);
    // (ga + gb + ga gb) = pu(ka) pu(kb) - 1 = g(ka+kb)
    id_pu_mul(ka, kb);
    assert(ga + gb + ga * gb == g(ka + kb)) by(nonlinear_arith) requires ga == pu(ka) - 1real, gb == pu(kb) - 1real, pu(ka) * pu(kb) == pu(ka + kb), g(ka + kb) == pu(ka + kb) - 1real;
    assert((ga * ma) * mb + ma * (gb * mb) + (ga * ma) * (gb * mb) == (ga + gb + ga * gb) * (ma * mb)) by(nonlinear_arith);
}

/// sum: |p - P| <= g(kp) MP, |c - C| <= g(kc) MC  ==>  |(p + c) - (P + C)| <= g(max) (MP + MC), |P + C| <= MP + MC
pub proof fn lemma_sum_err(p: real, pp: real, mp: real, kp: nat, c: real, cc: real, mc: real, kc: nat, k: nat)
    requires ab(p - pp) <= g(kp) * mp, ab(pp) <= mp, ab(c - cc) <= g(kc) * mc, ab(cc) <= mc, kp <= k, kc <= k,
    ensures ab((p + c) - (pp + cc)) <= g(k) * (mp + mc), ab(pp + cc) <= mp + mc,
{
    lemma_pu_mono(kp, k); lemma_pu_mono(kc, k); lemma_pu_ge1(kp); lemma_pu_ge1(kc);
    assert(mp >= 0real && mc >= 0real);
    lemma_mul_le(g(kp), mp, g(k), mp);
    lemma_mul_le(g(kc), mc, g(k), mc);
    assert(g(k) * (mp + mc) == g(k) * mp + g(k) * mc) by(nonlinear_arith);
}

/// one rounding: |e - E| <= g(k) M, |E| <= M, |d| <= u  ==>  |e (1+d) - E| <= g(k+1) M
pub proof fn lemma_round_err(e: real, ee: real, m: real, k: nat, d: real)
    requires ab(e - ee) <= g(k) * m, ab(ee) <= m, ab(d) <= uu(),
    ensures ab(e * (1real + d) - ee) <= g(k + 1) * m,
{
    lemma_pu_ge1(k);
    let gk = g(k);
    assert(m >= 0real && gk >= 0real);
    // e(1+d) - E = (e - E)(1 + d) + E d
    assert(e * (1real + d) - ee == (e - ee) * (1real + d) + ee * d) by(nonlinear_arith);
    lemma_ab_mul(e - ee, 1real + d); lemma_ab_mul(ee, d);
    lemma_ab_tri((e - ee) * (1real + d), ee * d);
    assert(gk * m >= 0real) by(nonlinear_arith) requires gk >= 0real, m >= 0real;
    assert(ab(1real + d) <= 1real + uu());
    lemma_mul_le(ab(e - ee), ab(1real + d), gk * m, 1real + uu());
    lemma_mul_le(ab(ee), ab(d), m, uu());
    // gk m (1+u) + m u = ((gk + 1)(1 + u) - 1) m = g(k+1) m
    assert(pu(k + 1) == (1real + uu()) * pu(k));
    assert((gk * m) * (1real + uu()) + m * uu() == ((gk + 1real) * (1real + uu()) - 1real) * m) by(nonlinear_arith);
    assert((gk + 1real) * (1real + uu()) - 1real == g(k + 1)) by(nonlinear_arith) requires gk == pu(k) - 1real, pu(k + 1) == (1real + uu()) * pu(k), g(k + 1) == pu(k + 1) - 1real;
}

/// fused multiply-add in the standard model: r = (a b + c)(1 + d)
pub proof fn lemma_fma_err(a: real, aa: real, ma: real, ka: nat, b: real, bb: real, mb: real, kb: nat,
                           c: real, cc: real, mc: real, kc: nat, d: real, k: nat)
    requires ab(a - aa) <= g(ka) * ma, ab(aa) <= ma, ab(b - bb) <= g(kb) * mb, ab(bb) <= mb,
             ab(c - cc) <= g(kc) * mc, ab(cc) <= mc, ab(d) <= uu(), ka + kb <= k, kc <= k,
    ensures ab((a * b + c) * (1real + d) - (aa * bb + cc)) <= g(k + 1) * (ma * mb + mc), ab(aa * bb + cc) <= ma * mb + mc,
{
    lemma_prod_err(a, aa, ma, ka, b, bb, mb, kb);
    lemma_sum_err(a * b, aa * bb, ma * mb, ka + kb, c, cc, mc, kc, k);
    lemma_round_err(a * b + c, aa * bb + cc, ma * mb + mc, k, d);
}
/// rounded product: r = (a b)(1 + d)
pub proof fn lemma_mul_err(a: real, aa: real, ma: real, ka: nat, b: real, bb: real, mb: real, kb: nat, d: real)
    requires ab(a - aa) <= g(ka) * ma, ab(aa) <= ma, ab(b - bb) <= g(kb) * mb, ab(bb) <= mb, ab(d) <= uu(),
    ensures ab((a * b) * (1real + d) - aa * bb) <= g(ka + kb + 1) * (ma * mb), ab(aa * bb) <= ma * mb,
{
    lemma_prod_err(a, aa, ma, ka, b, bb, mb, kb);
    lemma_round_err(a * b, aa * bb, ma * mb, ka + kb, d);
}
/// g(k) <= k u (1 + 2^-40) <= (k+1) u for k <= 16  (so g(k) M <= 4(n+2) u M whenever k + 1 <= 4(n+2))
pub open spec fn ua() -> real { uu() * (1real + 1real / 1099511627776real) }
pub proof fn lemma_g_small(k: nat)
    requires k <= 16,
    ensures g(k) <= k as real * ua(), g(k) <= (k + 1) as real * uu(), g(k) >= 0real,
    decreases k,
{
    lemma_pu_ge1(k);
    let kr = k as real;
    assert(ua() == uu() + uu() / 1099511627776real) by(nonlinear_arith) requires ua() == uu() * (1real + 1real / 1099511627776real);
    if k == 0 {
        assert(pu(0nat) == 1real);
    } else {
        lemma_g_small((k - 1) as nat);
        let p = pu((k - 1) as nat);
        let k1 = (k - 1) as real;
        assert(pu(k) == (1real + uu()) * p);
        assert(p <= 1real + k1 * ua());
        assert((1real + uu()) * p <= (1real + uu()) * (1real + k1 * ua())) by(nonlinear_arith) requires p <= 1real + k1 * ua(), uu() > 0real;
        assert((1real + uu()) * (1real + k1 * ua()) == 1real + k1 * ua() + uu() + k1 * (ua() * uu())) by(nonlinear_arith);
        // k1 * ua * uu <= uu / 2^40  because k1 * ua <= 16 * 1.2e-16 < 2^-40
        assert(uu() == 1real / 9007199254740992real);
        assert(ua() <= 3real / 10000000000000000real && ua() > 0real);
        assert(0real <= k1 <= 15real);
        assert(k1 * ua() <= 15real * (3real / 10000000000000000real)) by(nonlinear_arith) requires 0real <= k1 <= 15real, 0real < ua() <= 3real / 10000000000000000real;
        assert(k1 * ua() <= 1real / 1099511627776real);
        assert(k1 * (ua() * uu()) == (k1 * ua()) * uu()) by(nonlinear_arith);
        assert((k1 * ua()) * uu() <= (1real / 1099511627776real) * uu()) by(nonlinear_arith) requires k1 * ua() <= 1real / 1099511627776real, uu() > 0real;
        assert(kr == k1 + 1real);
        assert(kr * ua() == k1 * ua() + ua()) by(nonlinear_arith) requires kr == k1 + 1real;
        assert((1real / 1099511627776real) * uu() == uu() / 1099511627776real) by(nonlinear_arith);
        assert(pu(k) <= 1real + kr * ua());
    }
    assert(kr * ua() == kr * uu() + kr * (uu() / 1099511627776real)) by(nonlinear_arith) requires ua() == uu() + uu() / 1099511627776real;
    assert(0real <= kr <= 16real);
    assert(kr * (uu() / 1099511627776real) <= uu()) by(nonlinear_arith) requires 0real <= kr <= 16real, uu() > 0real;
    assert(kr * ua() <= (kr + 1real) * uu()) by(nonlinear_arith) requires kr * ua() == kr * uu() + kr * (uu() / 1099511627776real), kr * (uu() / 1099511627776real) <= uu();
}

/// as lemma_fma_err, stated for the caller: r is the rounded value, ev/mv the normal forms of the exact value and magnitude
pub proof fn lemma_fma_step(r: real, a: real, aa: real, ma: real, ka: nat, b: real, bb: real, mb: real, kb: nat,
                            c: real, cc: real, mc: real, kc: nat, d: real, k: nat, ev: real, mv: real)
    requires r == (a * b + c) * (1real + d), ab(d) <= uu(),
             ab(a - aa) <= g(ka) * ma, ab(aa) <= ma, ab(b - bb) <= g(kb) * mb, ab(bb) <= mb,
             ab(c - cc) <= g(kc) * mc, ab(cc) <= mc, ka + kb <= k, kc <= k,
             ev == aa * bb + cc, mv == ma * mb + mc,
    ensures ab(r - ev) <= g(k + 1) * mv, ab(ev) <= mv,
{
    lemma_fma_err(a, aa, ma, ka, b, bb, mb, kb, c, cc, mc, kc, d, k);
}
pub proof fn lemma_mul_step(r: real, a: real, aa: real, ma: real, ka: nat, b: real, bb: real, mb: real, kb: nat, d: real, ev: real, mv: real)
    requires r == (a * b) * (1real + d), ab(d) <= uu(),
             ab(a - aa) <= g(ka) * ma, ab(aa) <= ma, ab(b - bb) <= g(kb) * mb, ab(bb) <= mb,
             ev == aa * bb, mv == ma * mb,
    ensures ab(r - ev) <= g(ka + kb + 1) * mv, ab(ev) <= mv,
{
    lemma_mul_err(a, aa, ma, ka, b, bb, mb, kb, d);
}
/// an input of the scheme carries no error
pub proof fn lemma_atom(a: real)
    ensures ab(a - a) <= g(0nat) * ab(a), ab(a) <= ab(a), g(0nat) == 0real,
{
    assert(pu(0nat) == 1real);
    assert(g(0nat) * ab(a) == 0real) by(nonlinear_arith) requires g(0nat) == 0real;
}
pub proof fn lemma_atom_x(x: real)
    ensures ab(x - pw(x, 1nat)) <= g(0nat) * pw(ab(x), 1nat), ab(pw(x, 1nat)) <= pw(ab(x), 1nat),
{
    reveal_with_fuel(pw, 3);
    assert(pu(0nat) == 1real);
    assert(pw(x, 1nat) == x) by(nonlinear_arith) requires pw(x, 1nat) == x * pw(x, 0nat), pw(x, 0nat) == 1real;
    assert(pw(ab(x), 1nat) == ab(x)) by(nonlinear_arith) requires pw(ab(x), 1nat) == ab(x) * pw(ab(x), 0nat), pw(ab(x), 0nat) == 1real;
    assert(g(0nat) * pw(ab(x), 1nat) == 0real) by(nonlinear_arith) requires g(0nat) == 0real;
}
/// the final comparison with the property's bound  4(n+2) u sum |c_i||x|^i
pub proof fn lemma_final_bound(e: real, k: nat, m: real, nn: nat)
    requires e <= g(k) * m, m >= 0real, k <= 16, k + 1 <= nn,
    ensures e <= nn as real * uu() * m,
{
    lemma_g_small(k);
    assert(g(k) * m <= ((k + 1) as real * uu()) * m) by(nonlinear_arith) requires g(k) <= (k + 1) as real * uu(), m >= 0real;
    assert(((k + 1) as real * uu()) * m <= (nn as real * uu()) * m) by(nonlinear_arith) requires (k + 1) as real <= nn as real, uu() > 0real, m >= 0real;
}

} // verus!
fn main() {}
