// Unit u_fme_ident: the two polynomial identities used by the rounding-error lemmas (smt.arith.nl configuration).
#![allow(unused_imports, unused_variables, dead_code, non_snake_case)]
use vstd::prelude::*;
verus! {
pub uninterp spec fn rv(x: f64) -> real;
pub uninterp spec fn fin(x: f64) -> bool;
//@include prelude_poly.rs
//@include prelude_err.rs

pub proof fn id_pu_mul(j: nat, k: nat)
    ensures pu(j) * pu(k) == pu(j + k),
{
    lemma_pw_mul(1real + uu(), j, k);
}

pub proof fn id_err_mul(a: real, aa: real, b: real, bb: real)
    ensures a * b - aa * bb == (a - aa) * bb + aa * (b - bb) + (a - aa) * (b - bb),
{
    assert(a * b - aa * bb == (a - aa) * bb + aa * (b - bb) + (a - aa) * (b - bb)) by(nonlinear_arith);
}

} // verus!
fn main() {}
