// ===== the crate's data types (checked against /repo by //@struct: same fields, same types) ========
// Verus generates no type invariant for f64 FIELDS of datatypes (an f64 parameter is known to be a
// 64-bit value, a field is not), which blocks vstd's operator contracts on field operands.  The
// axioms below state exactly that missing fact: every f64 field holds some f64 value.
#[allow(unused_imports)]
pub mod ty {
    use vstd::prelude::*;
    verus! {
    pub open spec fn same_f64(a: f64, b: f64) -> bool { a == b }

//@struct file=src/poly.rs name=Knot
    #[derive(Clone, Copy)]
    pub struct Knot {
        pub x: f64,
        pub y: f64,
    }
//@struct file=src/poly.rs name=Poly0
    #[derive(Clone, Copy)]
    pub struct Poly0(pub f64);
//@struct file=src/poly.rs name=Poly1
    #[derive(Clone, Copy)]
    pub struct Poly1(pub [f64; 2]);
//@struct file=src/poly.rs name=Poly2
    #[derive(Clone, Copy)]
    pub struct Poly2(pub [f64; 3]);
//@struct file=src/poly.rs name=Poly3
    #[derive(Clone, Copy)]
    pub struct Poly3(pub [f64; 4]);
//@struct file=src/poly.rs name=Poly4
    #[derive(Clone, Copy)]
    pub struct Poly4(pub [f64; 5]);
//@struct file=src/poly.rs name=Poly5
    #[derive(Clone, Copy)]
    pub struct Poly5(pub [f64; 6]);
//@struct file=src/poly.rs name=Poly6
    #[derive(Clone, Copy)]
    pub struct Poly6(pub [f64; 7]);
//@struct file=src/poly.rs name=Poly7
    #[derive(Clone, Copy)]
    pub struct Poly7(pub [f64; 8]);
//@struct file=src/poly.rs name=Poly8
    #[derive(Clone, Copy)]
    pub struct Poly8(pub [f64; 9]);
//@struct file=src/log_poly.rs name=Log
    #[derive(Clone, Copy)]
    pub struct Log<T>(pub T);
//@struct file=src/log_poly.rs name=IntOfLog
    #[derive(Clone, Copy)]
    pub struct IntOfLog<T> {
        pub k: f64,
        pub poly: T,
    }
//@struct file=src/log_poly.rs name=IntOfLogPoly4
    #[derive(Clone, Copy)]
    pub struct IntOfLogPoly4 {
        pub k: f64,
        pub coeffs: [f64; 4],
        pub u: f64,
    }
//@struct file=src/piecewise.rs name=Segment
    #[derive(Clone, Copy)]
    pub struct Segment<T> {
        pub end: f64,
        pub poly: T,
    }
//@struct file=src/piecewise.rs name=Piecewise
    pub struct Piecewise<T> {
        pub segments: Vec<Segment<T>>,
    }

    pub broadcast axiom fn ax_ty_knot_x(p: Knot) ensures exists|t: f64| same_f64(t, #[trigger] p.x);
    pub broadcast axiom fn ax_ty_knot_y(p: Knot) ensures exists|t: f64| same_f64(t, #[trigger] p.y);
    pub broadcast axiom fn ax_ty_poly0(p: Poly0) ensures exists|t: f64| same_f64(t, #[trigger] p.0);
    pub broadcast axiom fn ax_ty_iol_k<T>(p: IntOfLog<T>) ensures exists|t: f64| same_f64(t, #[trigger] p.k);
    pub broadcast axiom fn ax_ty_iol4_k(p: IntOfLogPoly4) ensures exists|t: f64| same_f64(t, #[trigger] p.k);
    pub broadcast axiom fn ax_ty_iol4_u(p: IntOfLogPoly4) ensures exists|t: f64| same_f64(t, #[trigger] p.u);
    pub broadcast axiom fn ax_ty_seg_end<T>(p: Segment<T>) ensures exists|t: f64| same_f64(t, #[trigger] p.end);
    pub broadcast group typed { ax_ty_knot_x, ax_ty_knot_y, ax_ty_poly0, ax_ty_iol_k, ax_ty_iol4_k, ax_ty_iol4_u, ax_ty_seg_end }
    }
}
