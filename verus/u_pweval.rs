// Unit u_pweval: C03 (and the NaN clause of C16) — PiecewiseEvaluator::{new, evaluate} over an abstract piece type,
// ANY number of segments, every f64 argument, from ANY state satisfying the representation invariant.
// The backward iterator chain (enumerate/rev/find_map) is outside the Verus subset: it is replaced by a call to
// `back_search` with a trusted contract (checked, bounded, by the Kani step harnesses of C03).
#![allow(unused_imports, unused_variables, dead_code, non_snake_case)]
use vstd::prelude::*;
use vstd::std_specs::iter::IteratorSpec;
//@include prelude_fm.rs
verus! {
use fm::*;
broadcast use {fm::float_bits, fm::float_order};

pub struct Segment<T> {
    pub end: f64,
    pub poly: T,
}
pub struct Piecewise<T> {
    pub segments: Vec<Segment<T>>,
}

//@trait file=src/poly.rs name=Evaluate
pub trait Evaluate {
    /// the bits this piece returns for argument v (abstract: any deterministic function)
    spec fn ev(&self, v: f64) -> f64;
    /// well-formedness required of the receiver (pieces: always true; Piecewise: non-empty)
    spec fn wf(&self) -> bool;
    fn evaluate(&self, v: f64) -> (r: f64)
        requires self.wf(),
        ensures !nan(v) ==> r == self.ev(v);   // C02 quantifies over non-NaN arguments; for NaN only termination without panic (C16)
}

// ---- the property's selection rule ------------------------------------------------------------
/// index of the first segment at or after `from` whose end is strictly greater than x (machine `>`:
/// false whenever a NaN is involved), or s.len() if there is none
pub open spec fn first_gt<T>(s: Seq<Segment<T>>, x: f64, from: int) -> int
    decreases s.len() - from
{
    if from >= s.len() { s.len() as int }
    else if fgt(s[from].end, x) { from }
    else { first_gt(s, x, from + 1) }
}
pub open spec fn sel<T>(s: Seq<Segment<T>>, x: f64) -> int {
    if first_gt(s, x, 0) < s.len() { first_gt(s, x, 0) } else { s.len() - 1 }
}

pub proof fn lemma_first_gt_char<T>(s: Seq<Segment<T>>, x: f64, from: int, k: int)
    requires 0 <= from <= k <= s.len(),
             forall|j: int| from <= j < k ==> !fgt(#[trigger] s[j].end, x),
             k < s.len() ==> fgt(s[k].end, x),
    ensures first_gt(s, x, from) == k,
    decreases k - from
{
    if from < k { lemma_first_gt_char(s, x, from + 1, k); }
}

pub open spec fn sorted_ends<T>(s: Seq<Segment<T>>) -> bool {
    (forall|k: int| 0 <= k < s.len() ==> !nan(#[trigger] s[k].end))
    && (forall|k: int, l: int| 0 <= k <= l < s.len() ==> ord(#[trigger] s[k].end) <= ord(#[trigger] s[l].end))
}
/// C02 corollaries (for non-decreasing, non-NaN ends and non-NaN x)
/// below the first end: the first segment (it extends to -infinity)
pub proof fn lemma_first_extends<T>(s: Seq<Segment<T>>, x: f64)
    requires s.len() > 0, sorted_ends(s), !nan(x), ord(x) < ord(s[0].end),
    ensures sel(s, x) == 0,
{
    lemma_first_gt_char(s, x, 0, 0);
}
/// at or beyond every end: the last segment (it extends to +infinity)
pub proof fn lemma_last_extends<T>(s: Seq<Segment<T>>, x: f64)
    requires s.len() > 0, sorted_ends(s), !nan(x), ord(s[s.len() - 1].end) <= ord(x),
    ensures sel(s, x) == s.len() - 1,
{
    assert forall|j: int| 0 <= j < s.len() implies !fgt(#[trigger] s[j].end, x) by { assert(ord(s[j].end) <= ord(s[s.len() - 1].end)); }
    lemma_first_gt_char(s, x, 0, s.len() as int);
}
/// a breakpoint belongs to the segment on its right: at x == end_i (with a strictly larger end somewhere after) the selected index is > i
pub proof fn lemma_breakpoint_goes_right<T>(s: Seq<Segment<T>>, x: f64, i: int, j: int)
    requires sorted_ends(s), 0 <= i < j < s.len(), !nan(x), ord(x) == ord(s[i].end), ord(s[i].end) < ord(s[j].end),
    ensures i < sel(s, x) <= j, ord(s[sel(s, x)].end) > ord(x),
{
    // the first index above x exists (j is one) and is beyond i because ends up to i are <= end_i == x
    lemma_exists_first_above(s, x, i + 1, j);
    let k = choose|k: int| i + 1 <= k <= j && fgt(s[k].end, x) && forall|l: int| i + 1 <= l < k ==> !fgt(#[trigger] s[l].end, x);
    assert forall|l: int| 0 <= l < k implies !fgt(#[trigger] s[l].end, x) by { if l <= i { assert(ord(s[l].end) <= ord(s[i].end)); } }
    lemma_first_gt_char(s, x, 0, k);
}
proof fn lemma_exists_first_above<T>(s: Seq<Segment<T>>, x: f64, lo: int, j: int)
    requires 0 <= lo <= j < s.len(), fgt(s[j].end, x),
    ensures exists|k: int| lo <= k <= j && fgt(s[k].end, x) && forall|l: int| lo <= l < k ==> !fgt(#[trigger] s[l].end, x),
    decreases j - lo,
{
    if fgt(s[lo].end, x) {
        assert(lo <= lo <= j && fgt(s[lo].end, x) && forall|l: int| lo <= l < lo ==> !fgt(#[trigger] s[l].end, x));
    } else {
        lemma_exists_first_above(s, x, lo + 1, j);
        let k = choose|k: int| lo + 1 <= k <= j && fgt(s[k].end, x) && forall|l: int| lo + 1 <= l < k ==> !fgt(#[trigger] s[l].end, x);
        assert(lo <= k <= j && fgt(s[k].end, x) && forall|l: int| lo <= l < k ==> !fgt(#[trigger] s[l].end, x));
    }
}

// trusted contracts of the std functions the body uses (see DESIGN 6/C02)
pub assume_specification<'a, T, P: FnMut(&'a T) -> bool>
    [ <core::slice::Iter<'a, T> as Iterator>::position ]
    (it: &mut core::slice::Iter<'a, T>, p: P) -> (r: Option<usize>)
    where core::slice::Iter<'a, T>: Sized
    requires
        forall|i: int| 0 <= i < old(it).remaining().len() ==> call_requires(p, (#[trigger] old(it).remaining()[i],)),
    ensures
        match r {
            Some(k) => k < old(it).remaining().len()
                && call_ensures(p, (old(it).remaining()[k as int],), true)
                && forall|j: int| 0 <= j < k ==> call_ensures(p, (#[trigger] old(it).remaining()[j],), false),
            None => forall|j: int| 0 <= j < old(it).remaining().len()
                ==> call_ensures(p, (#[trigger] old(it).remaining()[j],), false),
        };

impl<T: Evaluate> Evaluate for Segment<T> {
    open spec fn ev(&self, v: f64) -> f64 { self.poly.ev(v) }
    open spec fn wf(&self) -> bool { self.poly.wf() }
//@extract file=src/piecewise.rs impl="impl<T: Evaluate> Evaluate for Segment<T>" fn=evaluate mode=contract-only props=none
//@end
}

//@struct file=src/piecewise.rs name=PiecewiseEvaluator pubfields=1
pub struct PiecewiseEvaluator<'a, T> {
    pub all_segments_front: &'a [Segment<T>],
    pub tail: &'a [Segment<T>],
    pub last: &'a Segment<T>,
    pub last_evaluation: f64,
}
pub assume_specification<T>[ <[T]>::split_last ](s: &[T]) -> (r: Option<(&T, &[T])>)
    ensures s@.len() == 0 ==> r is None,
            s@.len() > 0 ==> r is Some && *(r.unwrap().0) == s@[s@.len() - 1] && (r.unwrap().1)@ == s@.subrange(0, s@.len() - 1);
pub assume_specification[ f64::is_nan ](x: f64) -> (r: bool) ensures r == nan(x);

/// trusted contract of the backward iterator chain of PiecewiseEvaluator::evaluate
#[verifier::external_body]
pub fn back_search<'a, T>(in_front: &'a [Segment<T>], front: &'a [Segment<T>], x: f64) -> (t: &'a [Segment<T>])
    requires in_front@.len() <= front@.len(),
    ensures exists|c: int| 0 <= c <= in_front@.len() && t@ == front@.subrange(c, front@.len() as int)
                && (c > 0 ==> fle(in_front@[c - 1].end, x))
                && (forall|i: int| c <= i < in_front@.len() ==> !fle(#[trigger] in_front@[i].end, x)),
{ unimplemented!() }

/// the cursor position characterises the selected segment
pub proof fn lemma_cursor_is_sel<T>(s: Seq<Segment<T>>, x: f64, c: int)
    requires s.len() > 0, sorted_ends(s), !nan(x), 0 <= c <= s.len() - 1,
             forall|i: int| 0 <= i < c ==> ord(#[trigger] s[i].end) <= ord(x),
             c < s.len() - 1 ==> ord(s[c].end) > ord(x),
    ensures sel(s, x) == c,
{
    if c < s.len() - 1 {
        lemma_first_gt_char(s, x, 0, c);
    } else if fgt(s[c].end, x) {
        lemma_first_gt_char(s, x, 0, c);
    } else {
        lemma_first_gt_char(s, x, 0, c + 1);
    }
}

impl<'a, T: Evaluate> PiecewiseEvaluator<'a, T> {
    pub open spec fn segs(&self) -> Seq<Segment<T>> { self.all_segments_front@.push(*self.last) }
    pub open spec fn cur(&self) -> int { self.all_segments_front@.len() - self.tail@.len() }
    pub open spec fn inv(&self) -> bool {
        let f = self.all_segments_front@; let c = self.cur(); let s = self.segs();
        &&& sorted_ends(s)
        &&& (forall|i: int| 0 <= i < s.len() ==> (#[trigger] s[i]).poly.wf())
        &&& 0 <= c <= f.len()
        &&& self.tail@ == f.subrange(c, f.len() as int)
        &&& !nan(self.last_evaluation)
        &&& (forall|i: int| 0 <= i < c ==> ord(#[trigger] f[i].end) <= ord(self.last_evaluation))
        &&& (c < f.len() ==> ord(f[c].end) >= ord(self.last_evaluation))
    }

//@extract file=src/piecewise.rs impl="impl<'a, T: Evaluate> PiecewiseEvaluator<'a, T>" fn=new props=C03,C16
//@contract
        requires segments@.len() > 0, sorted_ends(segments@),
                 forall|i: int| 0 <= i < segments@.len() ==> (#[trigger] segments@[i]).poly.wf(),
        ensures r.inv(), r.segs() == segments@, r.cur() == 0,
//@sub |s| s.end =====> |s: &Segment<T>| -> (e: f64) ensures e == s.end { s.end }
//@tailproof
            assert(__r.segs() =~= segments@);
            assert(__r.tail@ =~= front@.subrange(0, front@.len() as int));
//@end

//@extract file=src/piecewise.rs impl="impl<'a, T: Evaluate> PiecewiseEvaluator<'a, T>" fn=evaluate props=C03,C16 breakvalue="&'a Segment<T>"
//@contract
        requires old(self).inv(),
        ensures final(self).inv(), final(self).segs() == old(self).segs(),
                // C03: the bits of direct evaluation (u_pwsel: Piecewise::evaluate returns segments[sel].poly.ev(x)), whatever the state was
                !nan(x) ==> r == old(self).segs()[sel(old(self).segs(), x)].poly.ev(x),
                // C16: a NaN query leaves the state alone
                nan(x) ==> *final(self) == *old(self),
//@prologue
        let ghost s = self.segs();
        let ghost f = self.all_segments_front@;
        proof { assert(*self.last == s[f.len() as int]); assert(s[f.len() as int].poly.wf()); }
//@subblock loop {
            loop
                invariant_except_break
                    __brk is None,
                invariant
                    self.all_segments_front == old(self).all_segments_front, self.last == old(self).last,
                    f == self.all_segments_front@, s == self.segs(), sorted_ends(s), !nan(x),
                    self.last_evaluation == old(self).last_evaluation,
                    0 <= self.cur() <= f.len(),
                    self.tail@ == f.subrange(self.cur(), f.len() as int),
                    forall|i: int| 0 <= i < self.cur() ==> ord(#[trigger] f[i].end) <= ord(x),
                ensures
                    __brk is Some,
                    self.cur() < f.len() ==> *__brk.unwrap() == f[self.cur()] && ord(f[self.cur()].end) > ord(x),
                    self.cur() == f.len() ==> __brk.unwrap() == self.last,
                decreases self.tail@.len(),
            {
//@endsub
//@subblock if first.end > x {
                proof { assert(*first == self.tail@[0]); assert(*first == f[self.cur()]); assert(s[self.cur()] == f[self.cur()]); }
                if first.end > x {
//@endsub
//@subblock self.tail = tail;
                proof { assert(tail@ =~= f.subrange(self.cur() + 1, f.len() as int)); }
                self.tail = tail;
//@endsub
//@subblock let in_front =
            let ghost c0 = self.cur();
            let in_front =
//@endsub
//@subspan self.tail = in_front ...... .unwrap_or(self.all_segments_front) sha=5930fe04707f2932
            self.tail = back_search(in_front, self.all_segments_front, x)
//@endsub
//@subblock self.tail.first().unwrap_or(self.last)
            proof {
                assert(in_front@ =~= f.subrange(0, c0));
                let c = f.len() - self.tail@.len();
                assert forall|i: int| 0 <= i < c implies ord(#[trigger] f[i].end) <= ord(x) by {
                    assert(in_front@[c - 1] == f[c - 1]); assert(s[i] == f[i]); assert(s[c - 1] == f[c - 1]);
                }
                if c < f.len() {
                    assert(s[c] == f[c]);
                    if c < c0 { assert(in_front@[c] == f[c]); }
                    assert(self.tail@[0] == f[c]);
                }
            }
            self.tail.first().unwrap_or(self.last)
//@endsub
//@afterlet seg
        proof {
            let c = self.cur();
            assert forall|i: int| 0 <= i < c implies ord(#[trigger] s[i].end) <= ord(x) by { assert(s[i] == f[i]); }
            if c < f.len() { assert(s[c] == f[c]); }
            lemma_cursor_is_sel(s, x, c);
            assert(*seg == s[c]);
        }
//@endsub
//@end
}

} // verus!
fn main() {}
