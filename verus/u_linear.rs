// Unit u_linear: C06 — linear::segment and linear::incr_linear (real bodies); the wiring of linear() is checked by Kani.
#![allow(unused_imports, unused_variables, dead_code, non_snake_case, unused_mut)]
use vstd::prelude::*;
//@include prelude_fm.rs
//@include prelude_types.rs
//@literals
verus! {
use fm::*;
use ty::*;
broadcast use {fm::float_bits, fm::float_real, fm::float_order, lits::literals, ty::typed};
//@include prelude_poly.rs
//@include inc_poly_contracts.rs

/// machine epsilon 2^-52 (the double written 2.220446049250313e-16 is exactly f64::EPSILON)
pub open spec fn eps() -> real { 1real / 4503599627370496real }

/// what `segment(k0, k1)` must return: end = k1.x verbatim; slope 0 when narrower than epsilon, else the secant slope;
/// the line passes through k0 (always) and through k1 (when at least epsilon wide)
pub open spec fn seg_post(k0: Knot, k1: Knot, r: Segment<Poly1>) -> bool {
    let dx = rv(k1.x) - rv(k0.x);
    &&& r.end == k1.x
    &&& all_fin(r.poly.0@)
    &&& (dx < eps() ==> rv(r.poly.0[1]) == 0real && rv(r.poly.0[0]) == rv(k0.y))
    &&& (dx >= eps() ==> rv(r.poly.0[1]) * dx == rv(k1.y) - rv(k0.y))
    &&& polyval(r.poly.0@, rv(k0.x)) == rv(k0.y)
    &&& (dx >= eps() ==> polyval(r.poly.0@, rv(k1.x)) == rv(k1.y))
}

//@extract file=src/linear.rs fn=segment props=C06
//@contract
        requires fin(knot0.x), fin(knot0.y), fin(knot1.x), fin(knot1.y),
        ensures seg_post(knot0, knot1, r),
//@sub f64::EPSILON =====> 2.220446049250313e-16
//@sub poly.translate( =====> let ghost __pre = poly; poly.translate(
//@tailproof
        reveal_with_fuel(psum, 4);
        let (X0, Y0, X1, Y1) = (rv(knot0.x), rv(knot0.y), rv(knot1.x), rv(knot1.y));
        let dx = X1 - X0;
        let c0 = rv(__r.poly.0[0]);
        let c1 = rv(__r.poly.0[1]);
        assert(__r.poly.0@.len() == 2 && __pre.0@.len() == 2);
        lemma_pw01(X0); lemma_pw01(X1);
        assert(__r.poly.0[1] == __pre.0[1]);
        assert(polyval(__pre.0@, X0) == rv(__pre.0[0]) + rv(__pre.0[1]) * X0);
        assert(c0 == rv(__pre.0[0]) + (Y0 - polyval(__pre.0@, X0)));
        assert(c0 + c1 * X0 == Y0);
        assert(polyval(__r.poly.0@, X0) == c0 + c1 * X0);
        assert(polyval(__r.poly.0@, X1) == c0 + c1 * X1);
        if dx >= eps() {
            assert(c1 * dx == Y1 - Y0) by(nonlinear_arith) requires c1 == (Y1 - Y0) / dx, dx > 0real;
            assert(c0 + c1 * X1 == Y1) by(nonlinear_arith) requires c0 + c1 * X0 == Y0, c1 * dx == Y1 - Y0, dx == X1 - X0;
        } else {
            assert(c1 == 0real);
            assert(c0 == Y0) by(nonlinear_arith) requires c0 + c1 * X0 == Y0, c1 == 0real;
        }
//@end

//@extract file=src/linear.rs fn=incr_linear props=C06
//@contract
        requires fin(old(prev_knot).x), fin(old(prev_knot).y), fin(current_knot.x), fin(current_knot.y),
        ensures
            // the forced knot: abscissa is the maximum of the two (one of them, bit for bit), ordinate verbatim
            final(prev_knot).y == current_knot.y,
            final(prev_knot).x == fmax(old(prev_knot).x, current_knot.x),
            final(prev_knot).x == old(prev_knot).x || final(prev_knot).x == current_knot.x,
            rv(final(prev_knot).x) >= rv(old(prev_knot).x) && rv(final(prev_knot).x) >= rv(current_knot.x),
            fin(final(prev_knot).x) && fin(final(prev_knot).y),
            seg_post(*old(prev_knot), *final(prev_knot), r),
//@end

/// C06 corollary: a line through (x0,y0) and (x1,y1) is their straight-line interpolant at EVERY x
/// (with seg_post and the selection rule of C02 this is the property's "evaluated at any x between two knots" clause)
pub proof fn lemma_line_is_interpolant(c0: real, c1: real, x0: real, y0: real, x1: real, y1: real, x: real)
    requires c0 + c1 * x0 == y0, c0 + c1 * x1 == y1, x0 != x1,
    ensures (c0 + c1 * x) * (x1 - x0) == y0 * (x1 - x0) + (y1 - y0) * (x - x0),
{
    let h = x1 - x0;
    assert(c1 * h == y1 - y0) by(nonlinear_arith) requires c0 + c1 * x0 == y0, c0 + c1 * x1 == y1, h == x1 - x0;
    assert((c0 + c1 * x) * h - y0 * h == (c1 * (x - x0)) * h) by(nonlinear_arith) requires c0 + c1 * x0 == y0;
    assert((c1 * (x - x0)) * h == (c1 * h) * (x - x0)) by(nonlinear_arith);
}

} // verus!
fn main() {}
