// Unit u_polyeval: C01 — evaluate of Poly0..Poly8 and Log<T> (real code extracted from /repo).
#![allow(unused_imports, unused_variables, dead_code, non_snake_case)]
use vstd::prelude::*;
//@include prelude_fm.rs
//@literals
verus! {
use fm::*;
broadcast use {fm::float_bits, fm::float_real, lits::literals};
//@include prelude_poly.rs

pub struct Poly0(pub f64);
pub struct Poly1(pub [f64; 2]);
pub struct Poly2(pub [f64; 3]);
pub struct Poly3(pub [f64; 4]);
pub struct Poly4(pub [f64; 5]);
pub struct Poly5(pub [f64; 6]);
pub struct Poly6(pub [f64; 7]);
pub struct Poly7(pub [f64; 8]);
pub struct Poly8(pub [f64; 9]);
pub struct Log<T>(pub T);

//@trait file=src/poly.rs name=Evaluate
pub trait Evaluate {
    spec fn wf(&self) -> bool;
    spec fn dom(&self, x: real) -> bool;
    spec fn ev_r(&self, x: real) -> real;
    fn evaluate(&self, v: f64) -> (r: f64)
        requires self.wf(), fin(v), self.dom(rv(v)),
        ensures fin(r), rv(r) == self.ev_r(rv(v));
}

impl Evaluate for Poly0 {
    open spec fn wf(&self) -> bool { fin(self.0) }
    open spec fn dom(&self, x: real) -> bool { true }
    open spec fn ev_r(&self, x: real) -> real { rv(self.0) * pw(x, 0nat) }
//@extract file=src/poly.rs impl="impl Evaluate for Poly0" fn=evaluate props=C01
//@end
}

impl Evaluate for Poly1 {
    open spec fn wf(&self) -> bool { all_fin(self.0@) }
    open spec fn dom(&self, x: real) -> bool { true }
    open spec fn ev_r(&self, x: real) -> real { polyval(self.0@, x) }
//@extract file=src/poly.rs impl="impl Evaluate for Poly1" fn=evaluate props=C01
//@hints polyeval x=x
//@tailproof
        reveal_with_fuel(psum, 3);
        assert(self.0@.len() == 2);
//@end
}

impl Evaluate for Poly2 {
    open spec fn wf(&self) -> bool { all_fin(self.0@) }
    open spec fn dom(&self, x: real) -> bool { true }
    open spec fn ev_r(&self, x: real) -> real { polyval(self.0@, x) }
//@extract file=src/poly.rs impl="impl Evaluate for Poly2" fn=evaluate props=C01
//@hints polyeval x=x
//@tailproof
        reveal_with_fuel(psum, 4);
        assert(self.0@.len() == 3);
//@end
}

impl Evaluate for Poly3 {
    open spec fn wf(&self) -> bool { all_fin(self.0@) }
    open spec fn dom(&self, x: real) -> bool { true }
    open spec fn ev_r(&self, x: real) -> real { polyval(self.0@, x) }
//@extract file=src/poly.rs impl="impl Evaluate for Poly3" fn=evaluate props=C01
//@hints polyeval x=x
//@tailproof
        reveal_with_fuel(psum, 5);
        assert(self.0@.len() == 4);
//@end
}

impl Evaluate for Poly4 {
    open spec fn wf(&self) -> bool { all_fin(self.0@) }
    open spec fn dom(&self, x: real) -> bool { true }
    open spec fn ev_r(&self, x: real) -> real { polyval(self.0@, x) }
//@extract file=src/poly.rs impl="impl Evaluate for Poly4" fn=evaluate props=C01
//@hints polyeval x=x
//@tailproof
        reveal_with_fuel(psum, 6);
        assert(self.0@.len() == 5);
//@end
}

impl Evaluate for Poly5 {
    open spec fn wf(&self) -> bool { all_fin(self.0@) }
    open spec fn dom(&self, x: real) -> bool { true }
    open spec fn ev_r(&self, x: real) -> real { polyval(self.0@, x) }
//@extract file=src/poly.rs impl="impl Evaluate for Poly5" fn=evaluate props=C01
//@hints polyeval x=x
//@tailproof
        reveal_with_fuel(psum, 7);
        assert(self.0@.len() == 6);
//@end
}

impl Evaluate for Poly6 {
    open spec fn wf(&self) -> bool { all_fin(self.0@) }
    open spec fn dom(&self, x: real) -> bool { true }
    open spec fn ev_r(&self, x: real) -> real { polyval(self.0@, x) }
//@extract file=src/poly.rs impl="impl Evaluate for Poly6" fn=evaluate props=C01
//@hints polyeval x=x
//@tailproof
        reveal_with_fuel(psum, 8);
        assert(self.0@.len() == 7);
//@end
}

impl Evaluate for Poly7 {
    open spec fn wf(&self) -> bool { all_fin(self.0@) }
    open spec fn dom(&self, x: real) -> bool { true }
    open spec fn ev_r(&self, x: real) -> real { polyval(self.0@, x) }
//@extract file=src/poly.rs impl="impl Evaluate for Poly7" fn=evaluate props=C01
//@hints polyeval x=x
//@tailproof
        reveal_with_fuel(psum, 9);
        assert(self.0@.len() == 8);
//@end
}

impl Evaluate for Poly8 {
    open spec fn wf(&self) -> bool { all_fin(self.0@) }
    open spec fn dom(&self, x: real) -> bool { true }
    open spec fn ev_r(&self, x: real) -> real { polyval(self.0@, x) }
//@extract file=src/poly.rs impl="impl Evaluate for Poly8" fn=evaluate props=C01
//@hints polyeval x=x
//@tailproof
        reveal_with_fuel(psum, 10);
        assert(self.0@.len() == 9);
//@end
}

impl<T: Evaluate> Evaluate for Log<T> {
    open spec fn wf(&self) -> bool { self.0.wf() && forall|x: real| self.0.dom(x) }
    open spec fn dom(&self, x: real) -> bool { x > 0real }
    open spec fn ev_r(&self, x: real) -> real { self.0.ev_r(lnr(x)) }
//@extract file=src/log_poly.rs impl="impl<T: Evaluate> Evaluate for Log<T>" fn=evaluate props=C01
//@end
}

} // verus!
fn main() {}
