// Unit u_polyn: C14 (translate clause for the dynamic-degree polynomial) and C16 (no panic) — the real body of
// <PolyN as Translate>::translate, FM-bits only (no idealisation): a non-empty coefficient vector gets the single IEEE sum
// c_0 + v in lane 0 and every other lane, and the length, unchanged; an empty one becomes [v].
#![allow(unused_imports, unused_variables, dead_code, non_snake_case)]
use vstd::prelude::*;
//@include prelude_fm.rs
verus! {
use fm::*;
broadcast use {fm::float_bits};

//@struct file=src/poly.rs name=PolyN
pub struct PolyN(pub Vec<f64>);

//@trait file=src/poly.rs name=Translate
pub trait Translate {
    /// the receiver before / after translate(v) (bit level)
    spec fn translated(pre: &Self, post: &Self, v: f64) -> bool;
    fn translate(&mut self, v: f64)
        ensures Self::translated(old(self), final(self), v);
}

impl Translate for PolyN {
    open spec fn translated(pre: &Self, post: &Self, v: f64) -> bool {
        if pre.0@.len() == 0 { post.0@ == seq![v] }
        else {
            // lane 0: one IEEE addition of c_0 and v (either operand order: IEEE addition is commutative); all other lanes and the length unchanged
            post.0@.len() == pre.0@.len()
            && (post.0@[0] == fadd(pre.0@[0], v) || post.0@[0] == fadd(v, pre.0@[0]))
            && forall|i: int| 1 <= i < pre.0@.len() ==> post.0@[i] == pre.0@[i]
        }
    }
//@extract file=src/poly.rs impl="impl Translate for PolyN" fn=translate props=C14,C16
//@sub *x0 += v =====> *x0 = *x0 + v
//@tailproof
        if old(self).0@.len() == 0 { assert(self.0@ =~= seq![v]); }
//@end
}

} // verus!
fn main() {}
