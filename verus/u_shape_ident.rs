// Unit u_shape_ident: the polynomial IDENTITIES used by the shape lemma of C05 (pure real arithmetic, no hypotheses beyond
// equalities).  Verified with the smt.arith.nl Z3 configuration (tools/z3wrap.sh), which handles identities but not
// inequalities; the inequality half lives in unit u_shape (Verus' own nonlinear options), which imports these lemmas
// by signature (//@assume-lemma, mechanically copied) and so assumes there what is proved here.
#![allow(unused_imports, unused_variables, dead_code, non_snake_case)]
use vstd::prelude::*;
verus! {

pub proof fn lemma_id_dcub_shift(b: real, c: real, d: real, x0: real, u: real)
    ensures b + 2real * c * (x0 + u) + 3real * d * (x0 + u) * (x0 + u)
            == (b + 2real * c * x0 + 3real * d * x0 * x0) + (2real * c + 6real * d * x0) * u + (3real * d) * u * u,
{
    assert(b + 2real * c * (x0 + u) + 3real * d * (x0 + u) * (x0 + u)
            == (b + 2real * c * x0 + 3real * d * x0 * x0) + (2real * c + 6real * d * x0) * u + (3real * d) * u * u) by(nonlinear_arith);
}

pub proof fn lemma_id_cub_shift(a: real, b: real, c: real, d: real, x0: real, u: real)
    ensures (a + b * (x0 + u) + c * (x0 + u) * (x0 + u) + d * (x0 + u) * (x0 + u) * (x0 + u)) - (a + b * x0 + c * x0 * x0 + d * x0 * x0 * x0)
            == (b + 2real * c * x0 + 3real * d * x0 * x0) * u + ((2real * c + 6real * d * x0) / 2real) * u * u + ((3real * d) / 3real) * u * u * u,
{
    assert((a + b * (x0 + u) + c * (x0 + u) * (x0 + u) + d * (x0 + u) * (x0 + u) * (x0 + u)) - (a + b * x0 + c * x0 * x0 + d * x0 * x0 * x0)
            == (b + 2real * c * x0 + 3real * d * x0 * x0) * u + ((2real * c + 6real * d * x0) / 2real) * u * u + ((3real * d) / 3real) * u * u * u) by(nonlinear_arith);
}

pub proof fn lemma_id_scale(f0: real, r1: real, r2: real, h: real, t: real)
    ensures
        f0 * (t * h) + (r1 / 2real) * (t * h) * (t * h) + (r2 / 3real) * (t * h) * (t * h) * (t * h)
            == h * (f0 * t + (r1 * h) * t * t / 2real + (r2 * h * h) * t * t * t / 3real),
        f0 * h + (r1 / 2real) * h * h + (r2 / 3real) * h * h * h == h * (f0 + (r1 * h) / 2real + (r2 * h * h) / 3real),
        f0 + r1 * (t * h) + r2 * (t * h) * (t * h) == f0 + (r1 * h) * t + (r2 * h * h) * t * t,
{
    assert(f0 * (t * h) + (r1 / 2real) * (t * h) * (t * h) + (r2 / 3real) * (t * h) * (t * h) * (t * h)
            == h * (f0 * t + (r1 * h) * t * t / 2real + (r2 * h * h) * t * t * t / 3real)) by(nonlinear_arith);
    assert(f0 * h + (r1 / 2real) * h * h + (r2 / 3real) * h * h * h == h * (f0 + (r1 * h) / 2real + (r2 * h * h) / 3real)) by(nonlinear_arith);
    assert(r1 * (t * h) == (r1 * h) * t) by(nonlinear_arith);
    assert(r2 * (t * h) * (t * h) == (r2 * h * h) * t * t) by(nonlinear_arith);
}

pub proof fn lemma_id_cancel(h: real, m: real, s: real)
    requires h * m == h * s, h != 0real,
    ensures m == s,
{
    assert(m == s) by(nonlinear_arith) requires h * m == h * s, h != 0real;
}

pub proof fn lemma_id_slope_form(f0: real, f1: real, s: real, t: real)
    ensures (f0 + (6real * s - 4real * f0 - 2real * f1) * t + (3real * f0 + 3real * f1 - 6real * s) * t * t) * s
            == (f0 * s) * ((1real - t) * (1real - 3real * t)) + (f1 * s) * (t * (3real * t - 2real)) + 6real * (s * s) * (t * (1real - t)),
{
    assert((f0 + (6real * s - 4real * f0 - 2real * f1) * t + (3real * f0 + 3real * f1 - 6real * s) * t * t) * s
            == (f0 * s) * ((1real - t) * (1real - 3real * t)) + (f1 * s) * (t * (3real * t - 2real)) + 6real * (s * s) * (t * (1real - t))) by(nonlinear_arith);
}

pub proof fn lemma_id_value_form(f0: real, f1: real, s: real, t: real)
    ensures 6real * ((f0 * t + (6real * s - 4real * f0 - 2real * f1) * t * t / 2real + (3real * f0 + 3real * f1 - 6real * s) * t * t * t / 3real) * s)
            == 6real * ((f0 * s) * (t * ((1real - t) * (1real - t))) - (f1 * s) * ((t * t) * (1real - t)) + (s * s) * ((t * t) * (3real - 2real * t))),
{
    let (t1, t2, t3) = (t, t * t, t * t * t);
    assert(6real * t1 - 12real * t2 + 6real * t3 == 6real * (t * ((1real - t) * (1real - t)))) by(nonlinear_arith) requires t1 == t, t2 == t * t, t3 == t * t * t;
    assert(6real * t3 - 6real * t2 == -6real * ((t * t) * (1real - t))) by(nonlinear_arith) requires t2 == t * t, t3 == t * t * t;
    assert(18real * t2 - 12real * t3 == 6real * ((t * t) * (3real - 2real * t))) by(nonlinear_arith) requires t2 == t * t, t3 == t * t * t;
    let (u0, u1, ss) = (f0 * s, f1 * s, s * s);
    // collect: bilinear in (f0, f1, s) x (t1, t2, t3)
    assert((6real * f0 * t1 + 3real * (6real * s - 4real * f0 - 2real * f1) * t2 + 2real * (3real * f0 + 3real * f1 - 6real * s) * t3) * s
           == (f0 * s) * (6real * t1 - 12real * t2 + 6real * t3) + (f1 * s) * (6real * t3 - 6real * t2) + (s * s) * (18real * t2 - 12real * t3)) by(nonlinear_arith);
    assert(6real * (f0 * t + (6real * s - 4real * f0 - 2real * f1) * t * t / 2real + (3real * f0 + 3real * f1 - 6real * s) * t * t * t / 3real)
           == 6real * f0 * t1 + 3real * (6real * s - 4real * f0 - 2real * f1) * t2 + 2real * (3real * f0 + 3real * f1 - 6real * s) * t3) by(nonlinear_arith)
        requires t1 == t, t2 == t * t, t3 == t * t * t;
    let lhs6 = 6real * (f0 * t + (6real * s - 4real * f0 - 2real * f1) * t * t / 2real + (3real * f0 + 3real * f1 - 6real * s) * t * t * t / 3real);
    assert(6real * ((f0 * t + (6real * s - 4real * f0 - 2real * f1) * t * t / 2real + (3real * f0 + 3real * f1 - 6real * s) * t * t * t / 3real) * s) == lhs6 * s) by(nonlinear_arith)
        requires lhs6 == 6real * (f0 * t + (6real * s - 4real * f0 - 2real * f1) * t * t / 2real + (3real * f0 + 3real * f1 - 6real * s) * t * t * t / 3real);
    assert(u0 * (6real * t1 - 12real * t2 + 6real * t3) == 6real * (u0 * (t * ((1real - t) * (1real - t))))) by(nonlinear_arith)
        requires 6real * t1 - 12real * t2 + 6real * t3 == 6real * (t * ((1real - t) * (1real - t)));
    assert(u1 * (6real * t3 - 6real * t2) == -6real * (u1 * ((t * t) * (1real - t)))) by(nonlinear_arith)
        requires 6real * t3 - 6real * t2 == -6real * ((t * t) * (1real - t));
    assert(ss * (18real * t2 - 12real * t3) == 6real * (ss * ((t * t) * (3real - 2real * t)))) by(nonlinear_arith)
        requires 18real * t2 - 12real * t3 == 6real * ((t * t) * (3real - 2real * t));
}

pub proof fn lemma_id_corners(ss: real, t: real)
    ensures
        3real * ss * (t * (3real * t - 2real)) + 6real * ss * (t * (1real - t)) == 3real * ss * (t * t),
        3real * ss * ((1real - t) * (1real - 3real * t)) + 3real * ss * (t * (3real * t - 2real)) + 6real * ss * (t * (1real - t)) == 3real * ss * ((1real - 2real * t) * (1real - 2real * t)),
        3real * ss * ((1real - t) * (1real - 3real * t)) + 6real * ss * (t * (1real - t)) == 3real * ss * ((1real - t) * (1real - t)),
        ss * ((t * t) * (3real - 2real * t)) - 3real * ss * ((t * t) * (1real - t)) == ss * (t * t * t),
        ss - (3real * ss * (t * ((1real - t) * (1real - t))) + ss * ((t * t) * (3real - 2real * t))) == ss * ((1real - t) * (1real - t) * (1real - t)),
{
    assert(3real * ss * (t * (3real * t - 2real)) + 6real * ss * (t * (1real - t)) == 3real * ss * (t * t)) by(nonlinear_arith);
    assert(3real * ss * ((1real - t) * (1real - 3real * t)) + 3real * ss * (t * (3real * t - 2real)) + 6real * ss * (t * (1real - t)) == 3real * ss * ((1real - 2real * t) * (1real - 2real * t))) by(nonlinear_arith);
    assert(3real * ss * ((1real - t) * (1real - 3real * t)) + 6real * ss * (t * (1real - t)) == 3real * ss * ((1real - t) * (1real - t))) by(nonlinear_arith);
    assert(ss * ((t * t) * (3real - 2real * t)) - 3real * ss * ((t * t) * (1real - t)) == ss * (t * t * t)) by(nonlinear_arith);
    assert(ss - (3real * ss * (t * ((1real - t) * (1real - t))) + ss * ((t * t) * (3real - 2real * t))) == ss * ((1real - t) * (1real - t) * (1real - t))) by(nonlinear_arith);
}

pub proof fn lemma_id_product_form(h: real, qi: real, s: real, w: real, dy: real)
    requires w == h * qi, dy == s * h,
    ensures w * (dy - w) == (h * h) * (qi * (s - qi)),
{
    assert(w * (dy - w) == (h * h) * (qi * (s - qi))) by(nonlinear_arith) requires w == h * qi, dy == s * h;
}

} // verus!
fn main() {}
