// ===== float model, ROUNDING variant FM-E (trusted base; see DESIGN.md section 3) ======================================
// FM-bits : an exec float operation IS the named uninterpreted IEEE function (no idealisation).
// FM-order: comparisons through nan()/ord() (no idealisation).
// FM-R    : exact mode - "machine arithmetic treated as mathematical": on finite operands the
//           named IEEE function returns a finite value whose real value is the exact result.
#[allow(unused_imports)]
pub mod fm {
    use vstd::prelude::*;
    use vstd::std_specs::ops::*;
    use vstd::std_specs::cmp::*;
    verus! {
    // ---- FM-bits
    pub uninterp spec fn fmul(a: f64, b: f64) -> f64;
    pub uninterp spec fn fadd(a: f64, b: f64) -> f64;
    pub uninterp spec fn fsub(a: f64, b: f64) -> f64;
    pub uninterp spec fn fdiv(a: f64, b: f64) -> f64;
    pub uninterp spec fn fneg(a: f64) -> f64;
    pub uninterp spec fn ffma(a: f64, b: f64, c: f64) -> f64;
    pub uninterp spec fn frecip(a: f64) -> f64;
    pub uninterp spec fn fln(a: f64) -> f64;
    pub uninterp spec fn fexp(a: f64) -> f64;
    pub uninterp spec fn fmax(a: f64, b: f64) -> f64;
    pub uninterp spec fn fmin(a: f64, b: f64) -> f64;
    pub uninterp spec fn fabs(a: f64) -> f64;

    pub broadcast axiom fn ax_mul_req(a: f64, b: f64) ensures #[trigger] a.mul_req(b);
    pub broadcast axiom fn ax_add_req(a: f64, b: f64) ensures #[trigger] a.add_req(b);
    pub broadcast axiom fn ax_sub_req(a: f64, b: f64) ensures #[trigger] a.sub_req(b);
    pub broadcast axiom fn ax_div_req(a: f64, b: f64) ensures #[trigger] a.div_req(b);
    pub broadcast axiom fn ax_neg_req(a: f64) ensures #[trigger] a.neg_req();
    pub broadcast axiom fn ax_mul(a: f64, b: f64, o: f64)
        requires #[trigger] mul_ensures::<f64>(a, b, o) ensures o == fmul(a, b);
    pub broadcast axiom fn ax_add(a: f64, b: f64, o: f64)
        requires #[trigger] add_ensures::<f64>(a, b, o) ensures o == fadd(a, b);
    pub broadcast axiom fn ax_sub(a: f64, b: f64, o: f64)
        requires #[trigger] sub_ensures::<f64>(a, b, o) ensures o == fsub(a, b);
    pub broadcast axiom fn ax_div(a: f64, b: f64, o: f64)
        requires #[trigger] div_ensures::<f64>(a, b, o) ensures o == fdiv(a, b);
    pub broadcast axiom fn ax_neg(a: f64, o: f64)
        requires #[trigger] neg_ensures::<f64>(a, o) ensures o == fneg(a);
    pub assume_specification[ f64::mul_add ](a: f64, b: f64, c: f64) -> (r: f64)
        ensures r == ffma(a, b, c);
    pub assume_specification[ f64::recip ](a: f64) -> (r: f64)
        ensures r == frecip(a);
    pub assume_specification[ f64::ln ](a: f64) -> (r: f64)
        ensures r == fln(a);
    pub assume_specification[ f64::exp ](a: f64) -> (r: f64)
        ensures r == fexp(a);
    pub assume_specification[ f64::max ](a: f64, b: f64) -> (r: f64)
        ensures r == fmax(a, b);
    pub assume_specification[ f64::min ](a: f64, b: f64) -> (r: f64)
        ensures r == fmin(a, b);
    pub assume_specification[ f64::abs ](a: f64) -> (r: f64)
        ensures r == fabs(a);

    // ---- FM-order
    pub uninterp spec fn nan(x: f64) -> bool;
    pub uninterp spec fn ord(x: f64) -> real;
    pub open spec fn flt(a: f64, b: f64) -> bool { !nan(a) && !nan(b) && ord(a) < ord(b) }
    pub open spec fn fle(a: f64, b: f64) -> bool { !nan(a) && !nan(b) && ord(a) <= ord(b) }
    pub open spec fn fgt(a: f64, b: f64) -> bool { !nan(a) && !nan(b) && ord(a) > ord(b) }
    pub open spec fn fge(a: f64, b: f64) -> bool { !nan(a) && !nan(b) && ord(a) >= ord(b) }
    pub broadcast axiom fn ax_lt(a: f64, b: f64, o: bool)
        requires #[trigger] lt_ensures::<f64>(a, b, o) ensures o == flt(a, b);
    pub broadcast axiom fn ax_le(a: f64, b: f64, o: bool)
        requires #[trigger] le_ensures::<f64>(a, b, o) ensures o == fle(a, b);
    pub broadcast axiom fn ax_gt(a: f64, b: f64, o: bool)
        requires #[trigger] gt_ensures::<f64>(a, b, o) ensures o == fgt(a, b);
    pub broadcast axiom fn ax_ge(a: f64, b: f64, o: bool)
        requires #[trigger] ge_ensures::<f64>(a, b, o) ensures o == fge(a, b);

    // ---- FM-E (standard model of floating-point arithmetic: one relative rounding error per operation)
    pub uninterp spec fn rv(x: f64) -> real;
    pub uninterp spec fn fin(x: f64) -> bool;
    pub uninterp spec fn dmul(a: f64, b: f64) -> real;
    pub uninterp spec fn dfma(a: f64, b: f64, c: f64) -> real;
    pub open spec fn uu() -> real { 1real / 9007199254740992real }
    pub open spec fn ab(x: real) -> real { if x >= 0real { x } else { -x } }
    pub broadcast axiom fn ax_fmul_e(a: f64, b: f64)
        requires fin(a), fin(b)
        ensures fin(#[trigger] fmul(a, b)), rv(fmul(a, b)) == (rv(a) * rv(b)) * (1real + dmul(a, b)), ab(dmul(a, b)) <= uu();
    pub broadcast axiom fn ax_ffma_e(a: f64, b: f64, c: f64)
        requires fin(a), fin(b), fin(c)
        ensures fin(#[trigger] ffma(a, b, c)), rv(ffma(a, b, c)) == (rv(a) * rv(b) + rv(c)) * (1real + dfma(a, b, c)), ab(dfma(a, b, c)) <= uu();
    pub broadcast group float_bits { ax_mul_req, ax_add_req, ax_sub_req, ax_div_req, ax_neg_req,
                                     ax_mul, ax_add, ax_sub, ax_div, ax_neg }
    pub broadcast axiom fn ax_pcmp(a: f64, b: f64, o: Option<core::cmp::Ordering>)
        requires #[trigger] partial_cmp_ensures::<f64>(a, b, o)
        ensures (nan(a) || nan(b)) <==> o is None,
                o == Some(core::cmp::Ordering::Less) <==> flt(a, b),
                o == Some(core::cmp::Ordering::Greater) <==> fgt(a, b),
                o == Some(core::cmp::Ordering::Equal) <==> (!nan(a) && !nan(b) && ord(a) == ord(b));
    pub broadcast group float_order { ax_lt, ax_le, ax_gt, ax_ge, ax_pcmp }
    pub broadcast group float_std_model { ax_fmul_e, ax_ffma_e }
    }
}
