// Unit u_shape: C05 — a cubic Hermite segment whose end-slope / secant ratios lie in [0,3] is monotone on its interval and
// stays between its end ordinates, for EVERY real point of the interval (Fritsch-Carlson).  Inequality reasoning: verified
// with Verus' own nonlinear Z3 options (//@plain-nl).  The polynomial identities are imported by signature from unit
// u_shape_ident, where they are proved with the other Z3 configuration.
//@plain-nl
#![allow(unused_imports, unused_variables, dead_code, non_snake_case)]
use vstd::prelude::*;
verus! {

//@assume-lemma file=u_shape_ident.rs name=lemma_id_dcub_shift
//@assume-lemma file=u_shape_ident.rs name=lemma_id_cub_shift
//@assume-lemma file=u_shape_ident.rs name=lemma_id_scale
//@assume-lemma file=u_shape_ident.rs name=lemma_id_cancel
//@assume-lemma file=u_shape_ident.rs name=lemma_id_slope_form
//@assume-lemma file=u_shape_ident.rs name=lemma_id_value_form
//@assume-lemma file=u_shape_ident.rs name=lemma_id_corners
//@assume-lemma file=u_shape_ident.rs name=lemma_id_product_form

/// lo <= f/s <= hi, written without division (the same definition as in u_spline.rs)
pub open spec fn ratio_in(f: real, s: real, lo: real, hi: real) -> bool {
    lo * (s * s) <= f * s && f * s <= hi * (s * s)
}
pub open spec fn cub(a: real, b: real, c: real, d: real, x: real) -> real { a + b * x + c * x * x + d * x * x * x }
pub open spec fn dcub(b: real, c: real, d: real, x: real) -> real { b + 2real * c * x + 3real * d * x * x }

proof fn lemma_sq_pos(s: real) requires s != 0real ensures s * s > 0real
{
    if s > 0real { assert(s * s > 0real) by(nonlinear_arith) requires s > 0real; }
    else { assert(s * s > 0real) by(nonlinear_arith) requires s < 0real; }
}
proof fn lemma_mul_nonneg(a: real, b: real) requires a >= 0real, b >= 0real ensures a * b >= 0real
{ assert(a * b >= 0real) by(nonlinear_arith) requires a >= 0real, b >= 0real; }
proof fn lemma_mul_nonneg_nonpos(a: real, b: real) requires a >= 0real, b <= 0real ensures a * b <= 0real
{ assert(a * b <= 0real) by(nonlinear_arith) requires a >= 0real, b <= 0real; }

/// slope part: e = u0 p0 + u1 p1 + 6 ss p2 >= 0 for u0, u1 in [0, 3 ss], t in [0,1]
proof fn lemma_slope_nonneg(u0: real, u1: real, ss: real, t: real)
    requires 0real <= u0 <= 3real * ss, 0real <= u1 <= 3real * ss, ss > 0real, 0real <= t <= 1real,
    ensures u0 * ((1real - t) * (1real - 3real * t)) + u1 * (t * (3real * t - 2real)) + 6real * ss * (t * (1real - t)) >= 0real,
{
    let p0 = (1real - t) * (1real - 3real * t);
    let p1 = t * (3real * t - 2real);
    let p2 = t * (1real - t);
    lemma_id_corners(ss, t);
    if t <= 1real / 3real {
        assert(p0 >= 0real) by(nonlinear_arith) requires p0 == (1real - t) * (1real - 3real * t), 0real <= t <= 1real / 3real;
        assert(p1 <= 0real) by(nonlinear_arith) requires p1 == t * (3real * t - 2real), 0real <= t <= 1real / 3real;
        lemma_mul_nonneg(u0, p0);
        lemma_mul_nonneg_nonpos(3real * ss - u1, p1);
        assert((3real * ss - u1) * p1 == 3real * ss * p1 - u1 * p1) by(nonlinear_arith);
        assert(t * t >= 0real) by(nonlinear_arith);
        lemma_mul_nonneg(ss, t * t);
        assert(u0 * p0 + u1 * p1 + 6real * ss * p2 >= 3real * ss * p1 + 6real * ss * p2);
        assert(3real * ss * p1 + 6real * ss * p2 == 3real * ss * (t * t));
        assert(3real * ss * (t * t) == 3real * (ss * (t * t))) by(nonlinear_arith);
        assert(u0 * p0 + u1 * p1 + 6real * ss * p2 >= 0real);
    } else if t <= 2real / 3real {
        assert(p0 <= 0real) by(nonlinear_arith) requires p0 == (1real - t) * (1real - 3real * t), 1real / 3real <= t <= 1real;
        assert(p1 <= 0real) by(nonlinear_arith) requires p1 == t * (3real * t - 2real), 0real <= t <= 2real / 3real;
        lemma_mul_nonneg_nonpos(3real * ss - u0, p0);
        lemma_mul_nonneg_nonpos(3real * ss - u1, p1);
        assert((3real * ss - u0) * p0 == 3real * ss * p0 - u0 * p0) by(nonlinear_arith);
        assert((3real * ss - u1) * p1 == 3real * ss * p1 - u1 * p1) by(nonlinear_arith);
        assert((1real - 2real * t) * (1real - 2real * t) >= 0real) by(nonlinear_arith);
        lemma_mul_nonneg(ss, (1real - 2real * t) * (1real - 2real * t));
        assert(u0 * p0 + u1 * p1 + 6real * ss * p2 >= 3real * ss * p0 + 3real * ss * p1 + 6real * ss * p2);
        assert(3real * ss * p0 + 3real * ss * p1 + 6real * ss * p2 == 3real * ss * ((1real - 2real * t) * (1real - 2real * t)));
        assert(3real * ss * ((1real - 2real * t) * (1real - 2real * t)) == 3real * (ss * ((1real - 2real * t) * (1real - 2real * t)))) by(nonlinear_arith);
        assert(u0 * p0 + u1 * p1 + 6real * ss * p2 >= 0real);
    } else {
        assert(p0 <= 0real) by(nonlinear_arith) requires p0 == (1real - t) * (1real - 3real * t), 1real / 3real <= t <= 1real;
        assert(p1 >= 0real) by(nonlinear_arith) requires p1 == t * (3real * t - 2real), 2real / 3real <= t <= 1real;
        lemma_mul_nonneg_nonpos(3real * ss - u0, p0);
        lemma_mul_nonneg(u1, p1);
        assert((3real * ss - u0) * p0 == 3real * ss * p0 - u0 * p0) by(nonlinear_arith);
        assert((1real - t) * (1real - t) >= 0real) by(nonlinear_arith);
        lemma_mul_nonneg(ss, (1real - t) * (1real - t));
        assert(u0 * p0 + u1 * p1 + 6real * ss * p2 >= 3real * ss * p0 + 6real * ss * p2);
        assert(3real * ss * p0 + 6real * ss * p2 == 3real * ss * ((1real - t) * (1real - t)));
        assert(3real * ss * ((1real - t) * (1real - t)) == 3real * (ss * ((1real - t) * (1real - t)))) by(nonlinear_arith);
        assert(u0 * p0 + u1 * p1 + 6real * ss * p2 >= 0real);
    }
}

/// value part: g = u0 g0 - u1 g1 + ss g2 lies in [0, ss]
proof fn lemma_value_range(u0: real, u1: real, ss: real, t: real)
    requires 0real <= u0 <= 3real * ss, 0real <= u1 <= 3real * ss, ss > 0real, 0real <= t <= 1real,
    ensures ({ let g = u0 * (t * ((1real - t) * (1real - t))) - u1 * ((t * t) * (1real - t)) + ss * ((t * t) * (3real - 2real * t));
               0real <= g && g <= ss }),
{
    let g0 = t * ((1real - t) * (1real - t));
    let g1 = (t * t) * (1real - t);
    let g2 = (t * t) * (3real - 2real * t);
    lemma_id_corners(ss, t);
    assert((1real - t) * (1real - t) >= 0real && t * t >= 0real) by(nonlinear_arith);
    lemma_mul_nonneg(t, (1real - t) * (1real - t));
    lemma_mul_nonneg(t * t, 1real - t);
    lemma_mul_nonneg(u0, g0);
    lemma_mul_nonneg(3real * ss - u0, g0);
    lemma_mul_nonneg(u1, g1);
    lemma_mul_nonneg(3real * ss - u1, g1);
    assert((3real * ss - u0) * g0 == 3real * ss * g0 - u0 * g0) by(nonlinear_arith);
    assert((3real * ss - u1) * g1 == 3real * ss * g1 - u1 * g1) by(nonlinear_arith);
    lemma_mul_nonneg(t * t, t);
    lemma_mul_nonneg(ss, t * t * t);
    lemma_mul_nonneg((1real - t) * (1real - t), 1real - t);
    lemma_mul_nonneg(ss, (1real - t) * (1real - t) * (1real - t));
}

/// C05-c (Fritsch-Carlson, for every real point of the interval).
pub proof fn lemma_hermite_monotone(a: real, b: real, c: real, d: real, x0: real, y0: real, x1: real, y1: real, f0: real, f1: real, t: real)
    requires
        x0 != x1,
        cub(a, b, c, d, x0) == y0, cub(a, b, c, d, x1) == y1,
        dcub(b, c, d, x0) == f0, dcub(b, c, d, x1) == f1,
        ({ let s = (y1 - y0) / (x1 - x0);
           ratio_in(f0, s, 0real, 3real) && ratio_in(f1, s, 0real, 3real) && (s == 0real ==> f0 == 0real && f1 == 0real) }),
        0real <= t <= 1real,
    ensures
        ({ let x = x0 + t * (x1 - x0); let s = (y1 - y0) / (x1 - x0);
           // the slope never has the sign opposite to the secant, and the value stays between the two ordinates
           dcub(b, c, d, x) * s >= 0real && (cub(a, b, c, d, x) - y0) * (y1 - cub(a, b, c, d, x)) >= 0real }),
{
    let h = x1 - x0;
    let s = (y1 - y0) / h;
    let u = t * h;
    let x = x0 + u;
    assert(s * h == y1 - y0) by(nonlinear_arith) requires s == (y1 - y0) / h, h != 0real;
    let r1 = 2real * c + 6real * d * x0;
    let r2 = 3real * d;
    lemma_id_dcub_shift(b, c, d, x0, u);
    lemma_id_dcub_shift(b, c, d, x0, h);
    lemma_id_cub_shift(a, b, c, d, x0, u);
    lemma_id_cub_shift(a, b, c, d, x0, h);
    lemma_id_scale(f0, r1, r2, h, t);
    assert(x1 == x0 + h);
    assert(dcub(b, c, d, x) == f0 + r1 * u + r2 * u * u);
    assert(f1 == f0 + r1 * h + r2 * h * h);
    let q1 = r1 * h;
    let q2 = r2 * h * h;
    assert(dcub(b, c, d, x) == f0 + q1 * t + q2 * t * t);
    let qi = f0 * t + q1 * t * t / 2real + q2 * t * t * t / 3real;
    let w = cub(a, b, c, d, x) - y0;
    assert(w == f0 * u + (r1 / 2real) * u * u + (r2 / 3real) * u * u * u);
    assert(w == h * qi);
    let m = f0 + q1 / 2real + q2 / 3real;
    assert(y1 - y0 == f0 * h + (r1 / 2real) * h * h + (r2 / 3real) * h * h * h);
    assert(y1 - y0 == h * m);
    assert(h * m == h * s);
    lemma_id_cancel(h, m, s);
    assert(q1 == 6real * s - 4real * f0 - 2real * f1);
    assert(q2 == 3real * f0 + 3real * f1 - 6real * s);
    lemma_id_product_form(h, qi, s, w, y1 - y0);
    assert(h * h >= 0real) by(nonlinear_arith);
    if s == 0real {
        assert(q1 == 0real && q2 == 0real && f0 == 0real);
        assert(q1 * t == 0real && q2 * t * t == 0real) by(nonlinear_arith) requires q1 == 0real, q2 == 0real;
        assert(dcub(b, c, d, x) == 0real);
        assert(dcub(b, c, d, x) * s == 0real) by(nonlinear_arith) requires s == 0real;
        assert(f0 * t == 0real && q1 * t * t / 2real == 0real && q2 * t * t * t / 3real == 0real) by(nonlinear_arith) requires f0 == 0real, q1 == 0real, q2 == 0real;
        assert(qi == 0real);
        assert(qi * (s - qi) == 0real) by(nonlinear_arith) requires qi == 0real;
        assert((h * h) * (qi * (s - qi)) == 0real) by(nonlinear_arith) requires qi * (s - qi) == 0real;
    } else {
        let u0 = f0 * s;
        let u1 = f1 * s;
        let ss = s * s;
        lemma_sq_pos(s);
        assert(0real <= u0 <= 3real * ss && 0real <= u1 <= 3real * ss);
        lemma_id_slope_form(f0, f1, s, t);
        lemma_slope_nonneg(u0, u1, ss, t);
        assert(dcub(b, c, d, x) * s >= 0real);
        lemma_id_value_form(f0, f1, s, t);
        lemma_value_range(u0, u1, ss, t);
        let g = qi * s;
        assert(6real * g == 6real * (u0 * (t * ((1real - t) * (1real - t))) - u1 * ((t * t) * (1real - t)) + ss * ((t * t) * (3real - 2real * t))));
        assert(0real <= g && g <= ss);
        if s > 0real {
            assert(qi >= 0real) by(nonlinear_arith) requires qi * s >= 0real, s > 0real;
            assert(s - qi >= 0real) by(nonlinear_arith) requires qi * s <= s * s, s > 0real;
            lemma_mul_nonneg(qi, s - qi);
        } else {
            assert(qi <= 0real) by(nonlinear_arith) requires qi * s >= 0real, s < 0real;
            assert(s - qi <= 0real) by(nonlinear_arith) requires qi * s <= s * s, s < 0real;
            assert(qi * (s - qi) >= 0real) by(nonlinear_arith) requires qi <= 0real, s - qi <= 0real;
        }
        lemma_mul_nonneg(h * h, qi * (s - qi));
    }
}

} // verus!
fn main() {}
