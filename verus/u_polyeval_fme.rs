// Unit u_polyeval_fme: the ROUNDING clause of C01 for Poly1..Poly8 in the standard model of floating-point arithmetic
// (every product / fused multiply-add returns the exact result times (1 + d), |d| <= 2^-53; overflow and underflow excluded):
//   | evaluate(x) - sum c_i x^i |  <=  4 (n+2) 2^-53 * sum |c_i| |x|^i       for every evaluation scheme in /repo.
// Real bodies spliced from /repo; hints generated from the code (tools/hints.py: polyerr); the error-propagation lemmas
// are proved in unit u_fme_lemmas and imported by mechanically copied signature.
#![allow(unused_imports, unused_variables, dead_code, non_snake_case)]
use vstd::prelude::*;
//@include prelude_fme.rs
verus! {
use fm::*;
broadcast use {fm::float_bits, fm::float_std_model};
//@include prelude_poly.rs
pub open spec fn pu(k: nat) -> real { pw(1real + uu(), k) }
pub open spec fn g(k: nat) -> real { pu(k) - 1real }
pub open spec fn pabs(c: Seq<f64>, x: real, n: nat) -> real
    decreases n
{
    if n == 0 { 0real } else { pabs(c, x, (n - 1) as nat) + ab(rv(c[n - 1])) * pw(ab(x), (n - 1) as nat) }
}
//@assume-lemma file=u_fme_lemmas.rs name=lemma_fma_step
//@assume-lemma file=u_fme_lemmas.rs name=lemma_mul_step
//@assume-lemma file=u_fme_lemmas.rs name=lemma_atom
//@assume-lemma file=u_fme_lemmas.rs name=lemma_atom_x
//@assume-lemma file=u_fme_lemmas.rs name=lemma_final_bound

pub struct Poly1(pub [f64; 2]);
impl Poly1 {
//@extract file=src/poly.rs impl="impl Evaluate for Poly1" fn=evaluate props=C01
//@contract
        requires all_fin(self.0@), fin(x),
        ensures fin(r), ab(rv(r) - polyval(self.0@, rv(x))) <= 16real * uu() * pabs(self.0@, rv(x), 2nat),
//@hints polyerr x=x n=2 coeffs=self.0
//@tailproof
        reveal_with_fuel(psum, 3);
        reveal_with_fuel(pabs, 3);
        assert(self.0@.len() == 2);
//@end
}
pub struct Poly2(pub [f64; 3]);
impl Poly2 {
//@extract file=src/poly.rs impl="impl Evaluate for Poly2" fn=evaluate props=C01
//@contract
        requires all_fin(self.0@), fin(x),
        ensures fin(r), ab(rv(r) - polyval(self.0@, rv(x))) <= 20real * uu() * pabs(self.0@, rv(x), 3nat),
//@hints polyerr x=x n=3 coeffs=self.0
//@tailproof
        reveal_with_fuel(psum, 4);
        reveal_with_fuel(pabs, 4);
        assert(self.0@.len() == 3);
//@end
}
pub struct Poly3(pub [f64; 4]);
impl Poly3 {
//@extract file=src/poly.rs impl="impl Evaluate for Poly3" fn=evaluate props=C01
//@contract
        requires all_fin(self.0@), fin(x),
        ensures fin(r), ab(rv(r) - polyval(self.0@, rv(x))) <= 24real * uu() * pabs(self.0@, rv(x), 4nat),
//@hints polyerr x=x n=4 coeffs=self.0
//@tailproof
        reveal_with_fuel(psum, 5);
        reveal_with_fuel(pabs, 5);
        assert(self.0@.len() == 4);
//@end
}
pub struct Poly4(pub [f64; 5]);
impl Poly4 {
//@extract file=src/poly.rs impl="impl Evaluate for Poly4" fn=evaluate props=C01
//@contract
        requires all_fin(self.0@), fin(x),
        ensures fin(r), ab(rv(r) - polyval(self.0@, rv(x))) <= 28real * uu() * pabs(self.0@, rv(x), 5nat),
//@hints polyerr x=x n=5 coeffs=self.0
//@tailproof
        reveal_with_fuel(psum, 6);
        reveal_with_fuel(pabs, 6);
        assert(self.0@.len() == 5);
//@end
}
pub struct Poly5(pub [f64; 6]);
impl Poly5 {
//@extract file=src/poly.rs impl="impl Evaluate for Poly5" fn=evaluate props=C01
//@contract
        requires all_fin(self.0@), fin(x),
        ensures fin(r), ab(rv(r) - polyval(self.0@, rv(x))) <= 32real * uu() * pabs(self.0@, rv(x), 6nat),
//@hints polyerr x=x n=6 coeffs=self.0
//@tailproof
        reveal_with_fuel(psum, 7);
        reveal_with_fuel(pabs, 7);
        assert(self.0@.len() == 6);
//@end
}
pub struct Poly6(pub [f64; 7]);
impl Poly6 {
//@extract file=src/poly.rs impl="impl Evaluate for Poly6" fn=evaluate props=C01
//@contract
        requires all_fin(self.0@), fin(x),
        ensures fin(r), ab(rv(r) - polyval(self.0@, rv(x))) <= 36real * uu() * pabs(self.0@, rv(x), 7nat),
//@hints polyerr x=x n=7 coeffs=self.0
//@tailproof
        reveal_with_fuel(psum, 8);
        reveal_with_fuel(pabs, 8);
        assert(self.0@.len() == 7);
//@end
}
pub struct Poly7(pub [f64; 8]);
impl Poly7 {
//@extract file=src/poly.rs impl="impl Evaluate for Poly7" fn=evaluate props=C01
//@contract
        requires all_fin(self.0@), fin(x),
        ensures fin(r), ab(rv(r) - polyval(self.0@, rv(x))) <= 40real * uu() * pabs(self.0@, rv(x), 8nat),
//@hints polyerr x=x n=8 coeffs=self.0
//@tailproof
        reveal_with_fuel(psum, 9);
        reveal_with_fuel(pabs, 9);
        assert(self.0@.len() == 8);
//@end
}
pub struct Poly8(pub [f64; 9]);
impl Poly8 {
//@extract file=src/poly.rs impl="impl Evaluate for Poly8" fn=evaluate props=C01
//@contract
        requires all_fin(self.0@), fin(x),
        ensures fin(r), ab(rv(r) - polyval(self.0@, rv(x))) <= 44real * uu() * pabs(self.0@, rv(x), 9nat),
//@hints polyerr x=x n=9 coeffs=self.0
//@tailproof
        reveal_with_fuel(psum, 10);
        reveal_with_fuel(pabs, 10);
        assert(self.0@.len() == 9);
//@end
}

} // verus!
fn main() {}
