// Unit u_spline: C04 / C05 — spline::f_dx and spline::segment (real bodies) and the lemmas over their contracts.
// The zip/chain wiring of constrained_spline is checked by Kani with these two functions stubbed (kani/spline_h.rs).
#![allow(unused_imports, unused_variables, dead_code, non_snake_case, unused_mut)]
use vstd::prelude::*;
//@include prelude_fm.rs
//@include prelude_types.rs
//@literals
verus! {
use fm::*;
use ty::*;
broadcast use {fm::float_bits, fm::float_real, fm::float_order, lits::literals, ty::typed};
//@include prelude_poly.rs

/// derivative of the cubic with coefficient vector c at X
pub open spec fn dcubic(c: Seq<f64>, x: real) -> real {
    rv(c[1]) + 2real * rv(c[2]) * x + 3real * rv(c[3]) * x * x
}
pub open spec fn cubic(c: Seq<f64>, x: real) -> real {
    rv(c[0]) + rv(c[1]) * x + rv(c[2]) * x * x + rv(c[3]) * x * x * x
}
/// secant slope
pub open spec fn sec(k0: Knot, k1: Knot) -> real { (rv(k1.y) - rv(k0.y)) / (rv(k1.x) - rv(k0.x)) }

/// Kruger's interior-knot slope: 0 where the secants differ in sign or one is flat, else their harmonic mean
pub open spec fn kruger(s01: real, s12: real) -> real {
    if s01 * s12 <= 0real { 0real } else { 2real * s01 * s12 / (s01 + s12) }
}

//@extract file=src/spline.rs fn=f_dx props=C04,C05
//@contract
        requires fin(knot_0.x), fin(knot_0.y), fin(knot_1.x), fin(knot_1.y), fin(knot_2.x), fin(knot_2.y),
                 rv(knot_0.x) < rv(knot_1.x), rv(knot_1.x) < rv(knot_2.x),
        ensures fin(r), rv(r) == kruger(sec(knot_0, knot_1), sec(knot_1, knot_2)),
//@tailproof
        let s01 = rv(slope01);
        let s12 = rv(slope12);
        assert(s01 == sec(knot_0, knot_1));
        assert(s12 == sec(knot_1, knot_2));
        if !(s01 * s12 <= 0real) {
            assert(s01 != 0real && s12 != 0real) by(nonlinear_arith) requires s01 * s12 > 0real;
            assert(s01 + s12 != 0real) by(nonlinear_arith) requires s01 * s12 > 0real;
            let a = 1real / s01;
            let b = 1real / s12;
            assert(a * s01 == 1real) by(nonlinear_arith) requires a == 1real / s01, s01 != 0real;
            assert(b * s12 == 1real) by(nonlinear_arith) requires b == 1real / s12, s12 != 0real;
            assert((a + b) * (s01 * s12) == s12 + s01) by(nonlinear_arith) requires a * s01 == 1real, b * s12 == 1real;
            assert(a + b != 0real) by(nonlinear_arith) requires (a + b) * (s01 * s12) == s12 + s01, s01 + s12 != 0real;
            assert(rv(__r) == 2real / (a + b));
            let r_ = rv(__r);
            assert(r_ * (a + b) == 2real) by(nonlinear_arith) requires r_ == 2real / (a + b), a + b != 0real;
            assert(r_ * (s01 + s12) == 2real * s01 * s12) by(nonlinear_arith)
                requires r_ * (a + b) == 2real, (a + b) * (s01 * s12) == s12 + s01;
            assert(r_ == 2real * s01 * s12 / (s01 + s12)) by(nonlinear_arith)
                requires r_ * (s01 + s12) == 2real * s01 * s12, s01 + s12 != 0real;
            assert(__r == fdiv(2.0f64, fadd(frecip(slope01), frecip(slope12)))); // [bits] harmonic mean through the two reciprocals: no product of the secants that could overflow
        }
//@end

/// what `segment(f0, k0, f1, k1)` must return: the cubic through both knots with the prescribed end slopes
pub open spec fn seg_post(f0: f64, k0: Knot, f1: f64, k1: Knot, r: Segment<Poly3>) -> bool {
    &&& r.end == k1.x
    &&& all_fin(r.poly.0@)
    &&& cubic(r.poly.0@, rv(k0.x)) == rv(k0.y)
    &&& cubic(r.poly.0@, rv(k1.x)) == rv(k1.y)
    &&& dcubic(r.poly.0@, rv(k0.x)) == rv(f0)
    &&& dcubic(r.poly.0@, rv(k1.x)) == rv(f1)
}

//@extract file=src/spline.rs fn=segment props=C04,C05
//@contract
        requires fin(f_x0_dx), fin(f_x1_dx), fin(knot_0.x), fin(knot_0.y), fin(knot_1.x), fin(knot_1.y),
                 rv(knot_0.x) != rv(knot_1.x),
        ensures seg_post(f_x0_dx, knot_0, f_x1_dx, knot_1, r),
//@tailproof
        let (X0, Y0, X1, Y1, F0, F1) = (rv(x0), rv(y0), rv(x1), rv(y1), rv(f_x0_dx), rv(f_x1_dx));
        let (DX, DY, S) = (rv(dx), rv(dy), rv(slope));
        let (A0, A1) = (rv(f_x0_dx_dx), rv(f_x1_dx_dx));
        let (A, B, C, D) = (rv(a), rv(b), rv(c), rv(d));
        let XX = rv(x0x0);
        assert(DX == X1 - X0 && DY == Y1 - Y0 && DX != 0real);
        assert(XX == X0 * X0);
        // ---- clear the denominators
        assert(S * DX == DY) by(nonlinear_arith) requires S == DY / DX, DX != 0real;
        assert(A0 == (2real * (3real * S - (F1 + 2real * F0))) / DX);
        assert(A0 * DX == 2real * (3real * S - (F1 + 2real * F0))) by(nonlinear_arith)
            requires A0 == (2real * (3real * S - (F1 + 2real * F0))) / DX, DX != 0real;
        assert(A1 == (2real * ((2real * F1 + F0) - 3real * S)) / DX);
        assert(A1 * DX == 2real * ((2real * F1 + F0) - 3real * S)) by(nonlinear_arith)
            requires A1 == (2real * ((2real * F1 + F0) - 3real * S)) / DX, DX != 0real;
        assert(D == ((1real / 6real) * (A1 - A0)) / DX);
        assert(D * DX == (A1 - A0) / 6real) by(nonlinear_arith)
            requires D == ((1real / 6real) * (A1 - A0)) / DX, DX != 0real;
        assert(C == ((1real / 2real) * (X1 * A0 - X0 * A1)) / DX);
        assert(C * DX == (X1 * A0 - X0 * A1) / 2real) by(nonlinear_arith)
            requires C == ((1real / 2real) * (X1 * A0 - X0 * A1)) / DX, DX != 0real;
        let Q = X1 * X1 + X1 * X0 + XX;
        assert(B == S - C * (X1 + X0) - D * Q);
        assert(A == Y0 - B * X0 - C * XX - (D * XX) * X0);
        // ---- value at x0
        assert((D * XX) * X0 == D * X0 * X0 * X0) by(nonlinear_arith) requires XX == X0 * X0;
        assert(C * XX == C * X0 * X0) by(nonlinear_arith) requires XX == X0 * X0;
        assert(cubic(__r.poly.0@, X0) == A + B * X0 + C * X0 * X0 + D * X0 * X0 * X0);
        assert(cubic(__r.poly.0@, X0) == Y0);
        // ---- value at x1:  P(x1) - P(x0) = dx * (b + c (x1+x0) + d Q) = dx * s = dy
        let P1 = A + B * X1 + C * X1 * X1 + D * X1 * X1 * X1;
        let P0 = A + B * X0 + C * X0 * X0 + D * X0 * X0 * X0;
        assert(cubic(__r.poly.0@, X1) == P1);
        assert(X1 * X1 - X0 * X0 == DX * (X1 + X0)) by(nonlinear_arith) requires DX == X1 - X0;
        assert(X1 * X1 * X1 - X0 * X0 * X0 == DX * Q) by(nonlinear_arith) requires DX == X1 - X0, Q == X1 * X1 + X1 * X0 + XX, XX == X0 * X0;
        assert(C * X1 * X1 - C * X0 * X0 == C * (DX * (X1 + X0))) by(nonlinear_arith) requires X1 * X1 - X0 * X0 == DX * (X1 + X0);
        assert(D * X1 * X1 * X1 - D * X0 * X0 * X0 == D * (DX * Q)) by(nonlinear_arith) requires X1 * X1 * X1 - X0 * X0 * X0 == DX * Q;
        assert(B * X1 - B * X0 == B * DX) by(nonlinear_arith) requires DX == X1 - X0;
        assert(P1 - P0 == B * DX + C * (DX * (X1 + X0)) + D * (DX * Q));
        assert(B * DX + C * (DX * (X1 + X0)) + D * (DX * Q) == DX * (B + C * (X1 + X0) + D * Q)) by(nonlinear_arith);
        assert(B + C * (X1 + X0) + D * Q == S);
        assert(DX * S == DY) by(nonlinear_arith) requires S * DX == DY;
        assert(P1 - P0 == DY) by(nonlinear_arith)
            requires P1 - P0 == B * DX + C * (DX * (X1 + X0)) + D * (DX * Q),
                     B * DX + C * (DX * (X1 + X0)) + D * (DX * Q) == DX * (B + C * (X1 + X0) + D * Q),
                     B + C * (X1 + X0) + D * Q == S, DX * S == DY;
        assert(cubic(__r.poly.0@, X1) == Y1);
        // ---- slopes.  c*dx and d*dx in terms of A0, A1; dx*A0 and dx*A1 in terms of s, f0, f1
        let CD = C * DX;
        let DD = D * DX;
        assert(CD == (X1 * A0 - X0 * A1) / 2real);
        assert(DD == (A1 - A0) / 6real);
        // slope at x0:  b + 2 c x0 + 3 d x0^2 = s - c dx - d dx (x1 + 2 x0)
        assert(C * (X1 + X0) - 2real * C * X0 == CD) by(nonlinear_arith) requires CD == C * DX, DX == X1 - X0;
        assert(D * Q - 3real * D * X0 * X0 == DD * (X1 + 2real * X0)) by(nonlinear_arith)
            requires DD == D * DX, DX == X1 - X0, Q == X1 * X1 + X1 * X0 + XX, XX == X0 * X0;
        assert(dcubic(__r.poly.0@, X0) == B + 2real * C * X0 + 3real * D * X0 * X0);
        assert(dcubic(__r.poly.0@, X0) == S - CD - DD * (X1 + 2real * X0));
        assert(CD + DD * (X1 + 2real * X0) == (2real * (A0 * DX) + A1 * DX) / 6real) by(nonlinear_arith)
            requires CD == (X1 * A0 - X0 * A1) / 2real, DD == (A1 - A0) / 6real, DX == X1 - X0;
        assert(dcubic(__r.poly.0@, X0) == F0);
        // slope at x1:  b + 2 c x1 + 3 d x1^2 = s + c dx + d dx (2 x1 + x0)
        assert(2real * C * X1 - C * (X1 + X0) == CD) by(nonlinear_arith) requires CD == C * DX, DX == X1 - X0;
        assert(3real * D * X1 * X1 - D * Q == DD * (2real * X1 + X0)) by(nonlinear_arith)
            requires DD == D * DX, DX == X1 - X0, Q == X1 * X1 + X1 * X0 + XX, XX == X0 * X0;
        assert(dcubic(__r.poly.0@, X1) == B + 2real * C * X1 + 3real * D * X1 * X1);
        assert(dcubic(__r.poly.0@, X1) == S + CD + DD * (2real * X1 + X0));
        assert(CD + DD * (2real * X1 + X0) == (A0 * DX + 2real * (A1 * DX)) / 6real) by(nonlinear_arith)
            requires CD == (X1 * A0 - X0 * A1) / 2real, DD == (A1 - A0) / 6real, DX == X1 - X0;
        assert(dcubic(__r.poly.0@, X1) == F1);
//@end

// ---- C05: shape lemmas over the two contracts above (pure real arithmetic) -------------------------------------
/// lo <= f/s <= hi, written without division (for s == 0 it says nothing)
pub open spec fn ratio_in(f: real, s: real, lo: real, hi: real) -> bool {
    lo * (s * s) <= f * s && f * s <= hi * (s * s)
}

/// C05-a: Kruger's slope is zero at extrema and plateaus, and otherwise lies strictly between 0 and twice each adjacent secant slope
pub proof fn lemma_kruger_range(s01: real, s12: real)
    ensures
        s01 * s12 <= 0real ==> kruger(s01, s12) == 0real,
        ratio_in(kruger(s01, s12), s01, 0real, 2real),
        ratio_in(kruger(s01, s12), s12, 0real, 2real),
{
    let f = kruger(s01, s12);
    if s01 * s12 <= 0real {
        assert(f * s01 == 0real && f * s12 == 0real) by(nonlinear_arith) requires f == 0real;
        assert(s01 * s01 >= 0real && s12 * s12 >= 0real) by(nonlinear_arith);
    } else {
        let t = s01 + s12;
        assert(t != 0real && s01 != 0real && s12 != 0real) by(nonlinear_arith) requires s01 * s12 > 0real, t == s01 + s12;
        assert(f * t == 2real * s01 * s12) by(nonlinear_arith) requires f == 2real * s01 * s12 / t, t != 0real;
        // both secants have the sign of t
        assert(s01 * t > 0real && s12 * t > 0real) by(nonlinear_arith) requires s01 * s12 > 0real, t == s01 + s12;
        // f*s01*t = 2 s01^2 s12   and   (2 s01^2 - f s01) t = 2 s01^3
        assert((f * s01) * t == 2real * (s01 * s01) * s12) by(nonlinear_arith) requires f * t == 2real * s01 * s12;
        assert((2real * (s01 * s01) - f * s01) * t == 2real * (s01 * s01) * s01) by(nonlinear_arith) requires f * t == 2real * s01 * s12, t == s01 + s12;
        assert((f * s12) * t == 2real * (s12 * s12) * s01) by(nonlinear_arith) requires f * t == 2real * s01 * s12;
        assert((2real * (s12 * s12) - f * s12) * t == 2real * (s12 * s12) * s12) by(nonlinear_arith) requires f * t == 2real * s01 * s12, t == s01 + s12;
        assert(f * s01 >= 0real && f * s01 <= 2real * (s01 * s01)) by(nonlinear_arith)
            requires (f * s01) * t == 2real * (s01 * s01) * s12, (2real * (s01 * s01) - f * s01) * t == 2real * (s01 * s01) * s01,
                     s01 * t > 0real, s12 * t > 0real, t != 0real;
        assert(f * s12 >= 0real && f * s12 <= 2real * (s12 * s12)) by(nonlinear_arith)
            requires (f * s12) * t == 2real * (s12 * s12) * s01, (2real * (s12 * s12) - f * s12) * t == 2real * (s12 * s12) * s12,
                     s01 * t > 0real, s12 * t > 0real, t != 0real;
    }
}

/// C05-b: the end-knot slope 3/2 s - 1/2 f1 lies between s/2 and 3s/2 when f1/s is in [0,2]
pub proof fn lemma_end_slope_range(s: real, f1: real)
    requires ratio_in(f1, s, 0real, 2real),
    ensures ratio_in((3real / 2real) * s - (1real / 2real) * f1, s, 1real / 2real, 3real / 2real),
{
    let f0 = (3real / 2real) * s - (1real / 2real) * f1;
    assert(f0 * s == (3real / 2real) * (s * s) - (1real / 2real) * (f1 * s)) by(nonlinear_arith) requires f0 == (3real / 2real) * s - (1real / 2real) * f1;
}
}

verus! {

/// C05: what the contracts give at an interior knot and at an end knot, in the form the Fritsch-Carlson monotonicity
/// condition needs: both one-sided slope ratios f/secant lie in [0,3] (interior: [0,2], ends: [1/2,3/2]) and the slope is 0
/// wherever an adjacent secant is 0 or the secants differ in sign.
pub proof fn lemma_c05_slope_ratios(s01: real, s12: real)
    ensures ({
        let f1 = kruger(s01, s12);
        let f0 = (3real / 2real) * s01 - (1real / 2real) * f1;   // end-knot slope next to an interior knot
        &&& ratio_in(f1, s01, 0real, 3real) && ratio_in(f1, s12, 0real, 3real)
        &&& ratio_in(f0, s01, 0real, 3real)
        &&& (s01 == 0real ==> f1 == 0real && f0 == 0real)
        &&& (s12 == 0real ==> f1 == 0real)
        &&& (s01 * s12 <= 0real ==> f1 == 0real)
    }),
{
    lemma_kruger_range(s01, s12);
    let f1 = kruger(s01, s12);
    lemma_end_slope_range(s01, f1);
    assert(s01 * s01 >= 0real && s12 * s12 >= 0real) by(nonlinear_arith);
    if s01 == 0real { assert(s01 * s12 == 0real) by(nonlinear_arith) requires s01 == 0real; }
    if s12 == 0real { assert(s01 * s12 == 0real) by(nonlinear_arith) requires s12 == 0real; }

// ---- C05 composed: the Fritsch-Carlson lemma (proved in u_shape under the other Z3 configuration) instantiated with the
// ---- contract of `segment` -- closes the gap between "the lemma about a cubic with Hermite data" and "the Segment<Poly3> returned"
//@same-spec file=u_shape.rs name=ratio_in
//@assume-spec file=u_shape.rs name=cub
//@assume-spec file=u_shape.rs name=dcub
//@assume-lemma file=u_shape.rs name=lemma_hermite_monotone
/// every segment returned by `segment(f0, k0, f1, k1)` whose prescribed end slopes have ratios in [0,3] to the secant (and vanish with it)
/// is monotone between its knots: at every real point of the interval the slope never opposes the secant and the value stays between
/// the two ordinates
pub proof fn lemma_c05_segment_monotone(f0: f64, k0: Knot, f1: f64, k1: Knot, r: Segment<Poly3>, t: real)
    requires
        seg_post(f0, k0, f1, k1, r), rv(k0.x) != rv(k1.x),
        ({ let s = sec(k0, k1);
           ratio_in(rv(f0), s, 0real, 3real) && ratio_in(rv(f1), s, 0real, 3real) && (s == 0real ==> rv(f0) == 0real && rv(f1) == 0real) }),
        0real <= t <= 1real,
    ensures
        ({ let x = rv(k0.x) + t * (rv(k1.x) - rv(k0.x)); let s = sec(k0, k1);
           dcubic(r.poly.0@, x) * s >= 0real && (cubic(r.poly.0@, x) - rv(k0.y)) * (rv(k1.y) - cubic(r.poly.0@, x)) >= 0real }),
{
    let c = r.poly.0@;
    let x = rv(k0.x) + t * (rv(k1.x) - rv(k0.x));
    assert(cub(rv(c[0]), rv(c[1]), rv(c[2]), rv(c[3]), rv(k0.x)) == cubic(c, rv(k0.x)));
    assert(cub(rv(c[0]), rv(c[1]), rv(c[2]), rv(c[3]), rv(k1.x)) == cubic(c, rv(k1.x)));
    assert(cub(rv(c[0]), rv(c[1]), rv(c[2]), rv(c[3]), x) == cubic(c, x));
    assert(dcub(rv(c[1]), rv(c[2]), rv(c[3]), rv(k0.x)) == dcubic(c, rv(k0.x)));
    assert(dcub(rv(c[1]), rv(c[2]), rv(c[3]), rv(k1.x)) == dcubic(c, rv(k1.x)));
    assert(dcub(rv(c[1]), rv(c[2]), rv(c[3]), x) == dcubic(c, x));
    lemma_hermite_monotone(rv(c[0]), rv(c[1]), rv(c[2]), rv(c[3]), rv(k0.x), rv(k0.y), rv(k1.x), rv(k1.y), rv(f0), rv(f1), t);
}

/// C05 for an interior piece of `constrained_spline`: knots k0 < k1 < k2 < k3, slopes at k1 and k2 from `f_dx` (Kruger), piece from `segment`
pub proof fn lemma_c05_interior_piece_monotone(k0: Knot, k1: Knot, k2: Knot, k3: Knot, f1: f64, f2: f64, r: Segment<Poly3>, t: real)
    requires
        rv(k1.x) != rv(k2.x),
        rv(f1) == kruger(sec(k0, k1), sec(k1, k2)),
        rv(f2) == kruger(sec(k1, k2), sec(k2, k3)),
        seg_post(f1, k1, f2, k2, r),
        0real <= t <= 1real,
    ensures
        ({ let x = rv(k1.x) + t * (rv(k2.x) - rv(k1.x)); let s = sec(k1, k2);
           dcubic(r.poly.0@, x) * s >= 0real && (cubic(r.poly.0@, x) - rv(k1.y)) * (rv(k2.y) - cubic(r.poly.0@, x)) >= 0real }),
{
    lemma_c05_slope_ratios(sec(k1, k2), sec(k0, k1));   // gives ratio_in(kruger(s12, s01), s12, 0, 3) ... (Kruger is symmetric, shown below)
    lemma_c05_slope_ratios(sec(k0, k1), sec(k1, k2));
    lemma_c05_slope_ratios(sec(k1, k2), sec(k2, k3));
    lemma_c05_segment_monotone(f1, k1, f2, k2, r, t);
}

/// C05 for the first piece: knots k0 < k1 < k2, slope at k1 from `f_dx`, slope at k0 = 3/2 secant - 1/2 slope at k1
pub proof fn lemma_c05_first_piece_monotone(k0: Knot, k1: Knot, k2: Knot, f0: f64, f1: f64, r: Segment<Poly3>, t: real)
    requires
        rv(k0.x) != rv(k1.x),
        rv(f1) == kruger(sec(k0, k1), sec(k1, k2)),
        rv(f0) == (3real / 2real) * sec(k0, k1) - (1real / 2real) * rv(f1),
        seg_post(f0, k0, f1, k1, r),
        0real <= t <= 1real,
    ensures
        ({ let x = rv(k0.x) + t * (rv(k1.x) - rv(k0.x)); let s = sec(k0, k1);
           dcubic(r.poly.0@, x) * s >= 0real && (cubic(r.poly.0@, x) - rv(k0.y)) * (rv(k1.y) - cubic(r.poly.0@, x)) >= 0real }),
{
    lemma_c05_slope_ratios(sec(k0, k1), sec(k1, k2));
    lemma_c05_segment_monotone(f0, k0, f1, k1, r, t);
}

/// C05 for the last piece: knots k0 < k1 < k2, slope at k1 from `f_dx`, slope at k2 = 3/2 secant - 1/2 slope at k1
pub proof fn lemma_c05_last_piece_monotone(k0: Knot, k1: Knot, k2: Knot, f1: f64, f2: f64, r: Segment<Poly3>, t: real)
    requires
        rv(k1.x) != rv(k2.x),
        rv(f1) == kruger(sec(k0, k1), sec(k1, k2)),
        rv(f2) == (3real / 2real) * sec(k1, k2) - (1real / 2real) * rv(f1),
        seg_post(f1, k1, f2, k2, r),
        0real <= t <= 1real,
    ensures
        ({ let x = rv(k1.x) + t * (rv(k2.x) - rv(k1.x)); let s = sec(k1, k2);
           dcubic(r.poly.0@, x) * s >= 0real && (cubic(r.poly.0@, x) - rv(k1.y)) * (rv(k2.y) - cubic(r.poly.0@, x)) >= 0real }),
{
    // Kruger is symmetric in its arguments
    assert(kruger(sec(k0, k1), sec(k1, k2)) == kruger(sec(k1, k2), sec(k0, k1))) by {
        let (a, b) = (sec(k0, k1), sec(k1, k2));
        assert(a * b == b * a) by(nonlinear_arith);
        assert(2real * a * b == 2real * b * a) by(nonlinear_arith);
    }
    lemma_c05_slope_ratios(sec(k1, k2), sec(k0, k1));
    lemma_c05_segment_monotone(f1, k1, f2, k2, r, t);
}

/// C04 corollary: two neighbouring pieces built by `segment` with the same slope at the shared knot agree there in value and in slope (C1)
pub proof fn lemma_c04_c1_at_shared_knot(f0: f64, k0: Knot, f1: f64, k1: Knot, f2: f64, k2: Knot, a: Segment<Poly3>, b: Segment<Poly3>)
    requires seg_post(f0, k0, f1, k1, a), seg_post(f1, k1, f2, k2, b),
    ensures cubic(a.poly.0@, rv(k1.x)) == cubic(b.poly.0@, rv(k1.x)), dcubic(a.poly.0@, rv(k1.x)) == dcubic(b.poly.0@, rv(k1.x)),
            cubic(a.poly.0@, rv(k1.x)) == rv(k1.y), a.end == k1.x,
{
}
}

} // verus!
fn main() {}
