// Unit u_merge: C13 (and the panic clauses of C16 for + and -) — the merge loops of `&f + &g` and `&f - &g`, real bodies,
// abstract piece type, operands of ANY size.  The piece operation `&a.poly + &b.poly` cannot be typed by the Verus front end
// under `&'a T: Add<&'b T>` (internal error), so it is wrapped: //@sub replaces the expression by a call to an
// external_body function whose body IS that expression and whose contract names its result pop(a, b).
#![allow(unused_imports, unused_variables, dead_code, non_snake_case)]
use vstd::prelude::*;
use vstd::std_specs::ops::*;
use std::ops::{Add, Sub};
use std::cmp::Ordering;
//@include prelude_fm.rs
verus! {
use fm::*;
broadcast use {fm::float_bits, fm::float_order};

pub struct Segment<T> { pub end: f64, pub poly: T }
pub struct Piecewise<T> { pub segments: Vec<Segment<T>> }

pub uninterp spec fn pop<T>(a: T, b: T) -> T;
#[verifier::external_body]
fn op_ref_add<'a, 'b, T>(a: &'a T, b: &'b T) -> (r: T) where &'a T: Add<&'b T, Output = T>
    ensures r == pop(*a, *b)
{ a + b }
#[verifier::external_body]
fn op_ref_sub<'a, 'b, T>(a: &'a T, b: &'b T) -> (r: T) where &'a T: Sub<&'b T, Output = T>
    ensures r == pop(*a, *b)
{ a - b }

pub open spec fn wfs<T>(s: Seq<Segment<T>>) -> bool {
    s.len() > 0 && (forall|k: int| 0 <= k < s.len() ==> !nan(#[trigger] s[k].end))
    && (forall|k: int, l: int| 0 <= k <= l < s.len() ==> ord(#[trigger] s[k].end) <= ord(#[trigger] s[l].end))
}
/// i is the segment direct evaluation selects at the real position x (x ranges over ord-values of non-NaN arguments)
pub open spec fn sel_at<T>(s: Seq<Segment<T>>, x: real, i: int) -> bool {
    0 <= i < s.len() && (forall|k: int| 0 <= k < i ==> ord(#[trigger] s[k].end) <= x) && (ord(s[i].end) > x || i == s.len() - 1)
}
/// k is the first index of r whose end is above x
pub open spec fn first_above<T>(r: Seq<Segment<T>>, x: real, k: int) -> bool {
    0 <= k < r.len() && (forall|l: int| 0 <= l < k ==> ord(#[trigger] r[l].end) <= x) && ord(r[k].end) > x
}
pub open spec fn from_fg<T>(f: Seq<Segment<T>>, g: Seq<Segment<T>>, e: f64) -> bool {
    (exists|l: int| 0 <= l < f.len() && e == #[trigger] f[l].end) || (exists|l: int| 0 <= l < g.len() && e == #[trigger] g[l].end)
}
pub open spec fn sorted_nn<T>(r: Seq<Segment<T>>) -> bool {
    (forall|k: int| 0 <= k < r.len() ==> !nan(#[trigger] r[k].end))
    && (forall|k: int, l: int| 0 <= k <= l < r.len() ==> ord(#[trigger] r[k].end) <= ord(#[trigger] r[l].end))
}
/// loop invariant of the merge (E = the last pushed end)
pub open spec fn merge_inv<T>(f: Seq<Segment<T>>, g: Seq<Segment<T>>, r: Seq<Segment<T>>, i: int, j: int) -> bool {
    &&& 0 <= i < f.len() && 0 <= j < g.len()
    &&& r.len() <= i + j
    &&& (r.len() == 0 ==> i == 0 && j == 0)
    &&& sorted_nn(r)
    &&& (forall|k: int| 0 <= k < r.len() ==> from_fg(f, g, (#[trigger] r[k]).end))
    &&& (r.len() > 0 ==> {
            let e = ord(r[r.len() - 1].end);
            &&& (forall|k: int| 0 <= k < i ==> ord(#[trigger] f[k].end) <= e)
            &&& (forall|k: int| 0 <= k < j ==> ord(#[trigger] g[k].end) <= e)
            &&& (i < f.len() - 1 ==> e <= ord(f[i].end))
            &&& (j < g.len() - 1 ==> e <= ord(g[j].end))
            &&& (e <= ord(f[i].end) || e <= ord(g[j].end))
            &&& (forall|x: real, k: int, ii: int, jj: int| x < e && first_above(r, x, k) && sel_at(f, x, ii) && sel_at(g, x, jj)
                    ==> r[k].poly == pop(f[ii].poly, g[jj].poly))
        })
}

pub open spec fn merged<T>(f: Seq<Segment<T>>, g: Seq<Segment<T>>, r: Seq<Segment<T>>) -> bool {
    wfs(r) && r.len() <= f.len() + g.len() - 1
    && (forall|k: int| 0 <= k < r.len() ==> from_fg(f, g, (#[trigger] r[k]).end))
    && (forall|x: real, k: int, i: int, j: int| sel_at(r, x, k) && sel_at(f, x, i) && sel_at(g, x, j) ==> r[k].poly == pop(f[i].poly, g[j].poly))
}

impl<'a, 'b, T> AddSpecImpl<&'b Piecewise<T>> for &'a Piecewise<T> where &'a T: Add<&'b T, Output = T> {
    open spec fn obeys_add_spec() -> bool { false }
    open spec fn add_req(self, other: &'b Piecewise<T>) -> bool { wfs(self.segments@) && wfs(other.segments@) && self.segments@.len() + other.segments@.len() < 0x7fff_ffff }
    open spec fn add_spec(self, other: &'b Piecewise<T>) -> Piecewise<T> { arbitrary() }
}
impl<'a, 'b, T> Add<&'b Piecewise<T>> for &'a Piecewise<T>
where
    &'a T: Add<&'b T, Output = T>,
{
    type Output = Piecewise<T>;
//@extract file=src/piecewise.rs impl="impl<'a, 'b, T> Add<&'b Piecewise<T>> for &'a Piecewise<T> where &'a T: Add<&'b T, Output = T>," fn=add props=C13,C16
//@contract
        ensures merged(self.segments@, other.segments@, r.segments@),
//@sub &a.poly + &b.poly =====> op_ref_add::<T>(&a.poly, &b.poly)
//@subblock loop {
        loop
            invariant_except_break
                merge_inv(self.segments@, other.segments@, res@, i as int, j as int),
            invariant
                wfs(self.segments@), wfs(other.segments@), self.segments@.len() + other.segments@.len() < 0x7fff_ffff,
                i_max == self.segments@.len() - 1, j_max == other.segments@.len() - 1,
            ensures
                merged(self.segments@, other.segments@, res@),
            decreases
                self.segments@.len() + other.segments@.len() - i - j,
        {
            let ghost f = self.segments@;
            let ghost g = other.segments@;
            let ghost r0 = res@;
            let ghost i0 = i as int;
            let ghost j0 = j as int;
//@endsub
//@subblock res.push(ab);
            res.push(ab);
            proof {
                let rr = res@;
                let e = ord(end);
                let n0 = r0.len() as int;
                assert(rr.len() == n0 + 1 && rr[n0].end == end && rr[n0].poly == pop(f[i0].poly, g[j0].poly));
                assert(forall|k: int| 0 <= k < n0 ==> rr[k] == r0[k]);
                assert(end == f[i0].end || end == g[j0].end);
                assert(from_fg(f, g, end));
                assert(!nan(end));
                // monotone: the previous last end is not above the new one
                if n0 > 0 { assert(ord(r0[n0 - 1].end) <= e); }
                assert(sorted_nn(rr)) by {
                    assert forall|k: int, l: int| 0 <= k <= l < rr.len() implies ord(#[trigger] rr[k].end) <= ord(#[trigger] rr[l].end) by {
                        if l == n0 && k < n0 { assert(ord(r0[k].end) <= ord(r0[n0 - 1].end)); }
                    }
                }
                // everything consumed so far is at or below e
                assert forall|k: int| 0 <= k < i implies ord(#[trigger] f[k].end) <= e by {
                    if k < i0 { assert(n0 > 0); assert(ord(f[k].end) <= ord(r0[n0 - 1].end)); }
                }
                assert forall|k: int| 0 <= k < j implies ord(#[trigger] g[k].end) <= e by {
                    if k < j0 { assert(n0 > 0); assert(ord(g[k].end) <= ord(r0[n0 - 1].end)); }
                }
                // correctness below e
                assert forall|x: real, k: int, ii: int, jj: int| x < e && first_above(rr, x, k) && sel_at(f, x, ii) && sel_at(g, x, jj)
                    implies rr[k].poly == pop(f[ii].poly, g[jj].poly) by {
                    if n0 > 0 && x < ord(r0[n0 - 1].end) {
                        // an old piece already covers x
                        if k == n0 { assert(ord(rr[n0 - 1].end) <= x); }
                        assert(first_above(r0, x, k));
                    } else {
                        if k < n0 { assert(ord(r0[k].end) <= ord(r0[n0 - 1].end)); }
                        assert(k == n0);
                        if ii < i0 { assert(ord(f[ii].end) <= ord(r0[n0 - 1].end)); }
                        if ii > i0 { assert(ord(f[i0].end) <= x); }
                        assert(ii == i0);
                        if jj < j0 { assert(ord(g[jj].end) <= ord(r0[n0 - 1].end)); }
                        if jj > j0 { assert(ord(g[j0].end) <= x); }
                        assert(jj == j0);
                    }
                }
                if a_last && b_last {
                    assert(wfs(rr));
                    assert forall|x: real, k: int, ii: int, jj: int| sel_at(rr, x, k) && sel_at(f, x, ii) && sel_at(g, x, jj)
                        implies rr[k].poly == pop(f[ii].poly, g[jj].poly) by {
                        if x < e {
                            if !(ord(rr[k].end) > x) { assert(k == n0); }
                            assert(first_above(rr, x, k));
                        } else {
                            if k < n0 { assert(ord(rr[k].end) <= ord(rr[n0].end)); }
                            assert(k == n0);
                            if ii < i0 { assert(ord(f[ii].end) <= e); }
                            assert(ii == i0);
                            if jj < j0 { assert(ord(g[jj].end) <= e); }
                            assert(jj == j0);
                        }
                    }
                    assert(merged(f, g, rr));
                } else {
                    assert(merge_inv(f, g, rr, i as int, j as int));
                }
            }
//@endsub
//@end
}

impl<'a, 'b, T> SubSpecImpl<&'b Piecewise<T>> for &'a Piecewise<T> where &'a T: Sub<&'b T, Output = T> {
    open spec fn obeys_sub_spec() -> bool { false }
    open spec fn sub_req(self, other: &'b Piecewise<T>) -> bool { wfs(self.segments@) && wfs(other.segments@) && self.segments@.len() + other.segments@.len() < 0x7fff_ffff }
    open spec fn sub_spec(self, other: &'b Piecewise<T>) -> Piecewise<T> { arbitrary() }
}
impl<'a, 'b, T> Sub<&'b Piecewise<T>> for &'a Piecewise<T>
where
    &'a T: Sub<&'b T, Output = T>,
{
    type Output = Piecewise<T>;
//@extract file=src/piecewise.rs impl="impl<'a, 'b, T> Sub<&'b Piecewise<T>> for &'a Piecewise<T> where &'a T: Sub<&'b T, Output = T>," fn=sub props=C13,C16
//@contract
        ensures merged(self.segments@, other.segments@, r.segments@),
//@sub &a.poly - &b.poly =====> op_ref_sub::<T>(&a.poly, &b.poly)
//@subblock loop {
        loop
            invariant_except_break
                merge_inv(self.segments@, other.segments@, res@, i as int, j as int),
            invariant
                wfs(self.segments@), wfs(other.segments@), self.segments@.len() + other.segments@.len() < 0x7fff_ffff,
                i_max == self.segments@.len() - 1, j_max == other.segments@.len() - 1,
            ensures
                merged(self.segments@, other.segments@, res@),
            decreases
                self.segments@.len() + other.segments@.len() - i - j,
        {
            let ghost f = self.segments@;
            let ghost g = other.segments@;
            let ghost r0 = res@;
            let ghost i0 = i as int;
            let ghost j0 = j as int;
//@endsub
//@subblock res.push(ab);
            res.push(ab);
            proof {
                let rr = res@;
                let e = ord(end);
                let n0 = r0.len() as int;
                assert(rr.len() == n0 + 1 && rr[n0].end == end && rr[n0].poly == pop(f[i0].poly, g[j0].poly));
                assert(forall|k: int| 0 <= k < n0 ==> rr[k] == r0[k]);
                assert(end == f[i0].end || end == g[j0].end);
                assert(from_fg(f, g, end));
                assert(!nan(end));
                // monotone: the previous last end is not above the new one
                if n0 > 0 { assert(ord(r0[n0 - 1].end) <= e); }
                assert(sorted_nn(rr)) by {
                    assert forall|k: int, l: int| 0 <= k <= l < rr.len() implies ord(#[trigger] rr[k].end) <= ord(#[trigger] rr[l].end) by {
                        if l == n0 && k < n0 { assert(ord(r0[k].end) <= ord(r0[n0 - 1].end)); }
                    }
                }
                // everything consumed so far is at or below e
                assert forall|k: int| 0 <= k < i implies ord(#[trigger] f[k].end) <= e by {
                    if k < i0 { assert(n0 > 0); assert(ord(f[k].end) <= ord(r0[n0 - 1].end)); }
                }
                assert forall|k: int| 0 <= k < j implies ord(#[trigger] g[k].end) <= e by {
                    if k < j0 { assert(n0 > 0); assert(ord(g[k].end) <= ord(r0[n0 - 1].end)); }
                }
                // correctness below e
                assert forall|x: real, k: int, ii: int, jj: int| x < e && first_above(rr, x, k) && sel_at(f, x, ii) && sel_at(g, x, jj)
                    implies rr[k].poly == pop(f[ii].poly, g[jj].poly) by {
                    if n0 > 0 && x < ord(r0[n0 - 1].end) {
                        // an old piece already covers x
                        if k == n0 { assert(ord(rr[n0 - 1].end) <= x); }
                        assert(first_above(r0, x, k));
                    } else {
                        if k < n0 { assert(ord(r0[k].end) <= ord(r0[n0 - 1].end)); }
                        assert(k == n0);
                        if ii < i0 { assert(ord(f[ii].end) <= ord(r0[n0 - 1].end)); }
                        if ii > i0 { assert(ord(f[i0].end) <= x); }
                        assert(ii == i0);
                        if jj < j0 { assert(ord(g[jj].end) <= ord(r0[n0 - 1].end)); }
                        if jj > j0 { assert(ord(g[j0].end) <= x); }
                        assert(jj == j0);
                    }
                }
                if a_last && b_last {
                    assert(wfs(rr));
                    assert forall|x: real, k: int, ii: int, jj: int| sel_at(rr, x, k) && sel_at(f, x, ii) && sel_at(g, x, jj)
                        implies rr[k].poly == pop(f[ii].poly, g[jj].poly) by {
                        if x < e {
                            if !(ord(rr[k].end) > x) { assert(k == n0); }
                            assert(first_above(rr, x, k));
                        } else {
                            if k < n0 { assert(ord(rr[k].end) <= ord(rr[n0].end)); }
                            assert(k == n0);
                            if ii < i0 { assert(ord(f[ii].end) <= e); }
                            assert(ii == i0);
                            if jj < j0 { assert(ord(g[jj].end) <= e); }
                            assert(jj == j0);
                        }
                    }
                    assert(merged(f, g, rr));
                } else {
                    assert(merge_inv(f, g, rr, i as int, j as int));
                }
            }
//@endsub
//@end
}

} // verus!
fn main() {}
