// Unit u_pwsel: C02 (and the panic clause of C16 for direct evaluation) — Piecewise::evaluate over an
// abstract piece type, any number of segments, every f64 argument.
#![allow(unused_imports, unused_variables, dead_code, non_snake_case)]
use vstd::prelude::*;
use vstd::std_specs::iter::IteratorSpec;
//@include prelude_fm.rs
verus! {
use fm::*;
broadcast use {fm::float_bits, fm::float_order};

pub struct Segment<T> {
    pub end: f64,
    pub poly: T,
}
pub struct Piecewise<T> {
    pub segments: Vec<Segment<T>>,
}

//@trait file=src/poly.rs name=Evaluate
pub trait Evaluate {
    /// the bits this piece returns for argument v (abstract: any deterministic function)
    spec fn ev(&self, v: f64) -> f64;
    /// well-formedness required of the receiver (pieces: always true; Piecewise: non-empty)
    spec fn wf(&self) -> bool;
    fn evaluate(&self, v: f64) -> (r: f64)
        requires self.wf(),
        ensures !nan(v) ==> r == self.ev(v);   // C02 quantifies over non-NaN arguments; for NaN only termination without panic (C16)
}

// ---- the property's selection rule ------------------------------------------------------------
/// index of the first segment at or after `from` whose end is strictly greater than x (machine `>`:
/// false whenever a NaN is involved), or s.len() if there is none
pub open spec fn first_gt<T>(s: Seq<Segment<T>>, x: f64, from: int) -> int
    decreases s.len() - from
{
    if from >= s.len() { s.len() as int }
    else if fgt(s[from].end, x) { from }
    else { first_gt(s, x, from + 1) }
}
pub open spec fn sel<T>(s: Seq<Segment<T>>, x: f64) -> int {
    if first_gt(s, x, 0) < s.len() { first_gt(s, x, 0) } else { s.len() - 1 }
}

pub proof fn lemma_first_gt_char<T>(s: Seq<Segment<T>>, x: f64, from: int, k: int)
    requires 0 <= from <= k <= s.len(),
             forall|j: int| from <= j < k ==> !fgt(#[trigger] s[j].end, x),
             k < s.len() ==> fgt(s[k].end, x),
    ensures first_gt(s, x, from) == k,
    decreases k - from
{
    if from < k { lemma_first_gt_char(s, x, from + 1, k); }
}

pub open spec fn sorted_ends<T>(s: Seq<Segment<T>>) -> bool {
    (forall|k: int| 0 <= k < s.len() ==> !nan(#[trigger] s[k].end))
    && (forall|k: int, l: int| 0 <= k <= l < s.len() ==> ord(#[trigger] s[k].end) <= ord(#[trigger] s[l].end))
}
/// C02 corollaries (for non-decreasing, non-NaN ends and non-NaN x)
/// below the first end: the first segment (it extends to -infinity)
pub proof fn lemma_first_extends<T>(s: Seq<Segment<T>>, x: f64)
    requires s.len() > 0, sorted_ends(s), !nan(x), ord(x) < ord(s[0].end),
    ensures sel(s, x) == 0,
{
    lemma_first_gt_char(s, x, 0, 0);
}
/// at or beyond every end: the last segment (it extends to +infinity)
pub proof fn lemma_last_extends<T>(s: Seq<Segment<T>>, x: f64)
    requires s.len() > 0, sorted_ends(s), !nan(x), ord(s[s.len() - 1].end) <= ord(x),
    ensures sel(s, x) == s.len() - 1,
{
    assert forall|j: int| 0 <= j < s.len() implies !fgt(#[trigger] s[j].end, x) by { assert(ord(s[j].end) <= ord(s[s.len() - 1].end)); }
    lemma_first_gt_char(s, x, 0, s.len() as int);
}
/// a breakpoint belongs to the segment on its right: at x == end_i (with a strictly larger end somewhere after) the selected index is > i
pub proof fn lemma_breakpoint_goes_right<T>(s: Seq<Segment<T>>, x: f64, i: int, j: int)
    requires sorted_ends(s), 0 <= i < j < s.len(), !nan(x), ord(x) == ord(s[i].end), ord(s[i].end) < ord(s[j].end),
    ensures i < sel(s, x) <= j, ord(s[sel(s, x)].end) > ord(x),
{
    // the first index above x exists (j is one) and is beyond i because ends up to i are <= end_i == x
    lemma_exists_first_above(s, x, i + 1, j);
    let k = choose|k: int| i + 1 <= k <= j && fgt(s[k].end, x) && forall|l: int| i + 1 <= l < k ==> !fgt(#[trigger] s[l].end, x);
    assert forall|l: int| 0 <= l < k implies !fgt(#[trigger] s[l].end, x) by { if l <= i { assert(ord(s[l].end) <= ord(s[i].end)); } }
    lemma_first_gt_char(s, x, 0, k);
}
proof fn lemma_exists_first_above<T>(s: Seq<Segment<T>>, x: f64, lo: int, j: int)
    requires 0 <= lo <= j < s.len(), fgt(s[j].end, x),
    ensures exists|k: int| lo <= k <= j && fgt(s[k].end, x) && forall|l: int| lo <= l < k ==> !fgt(#[trigger] s[l].end, x),
    decreases j - lo,
{
    if fgt(s[lo].end, x) {
        assert(lo <= lo <= j && fgt(s[lo].end, x) && forall|l: int| lo <= l < lo ==> !fgt(#[trigger] s[l].end, x));
    } else {
        lemma_exists_first_above(s, x, lo + 1, j);
        let k = choose|k: int| lo + 1 <= k <= j && fgt(s[k].end, x) && forall|l: int| lo + 1 <= l < k ==> !fgt(#[trigger] s[l].end, x);
        assert(lo <= k <= j && fgt(s[k].end, x) && forall|l: int| lo <= l < k ==> !fgt(#[trigger] s[l].end, x));
    }
}

// trusted contracts of the std functions the body uses (see DESIGN 6/C02)
pub assume_specification<'a, T, P: FnMut(&'a T) -> bool>
    [ <core::slice::Iter<'a, T> as Iterator>::position ]
    (it: &mut core::slice::Iter<'a, T>, p: P) -> (r: Option<usize>)
    where core::slice::Iter<'a, T>: Sized
    requires
        forall|i: int| 0 <= i < old(it).remaining().len() ==> call_requires(p, (#[trigger] old(it).remaining()[i],)),
    ensures
        match r {
            Some(k) => k < old(it).remaining().len()
                && call_ensures(p, (old(it).remaining()[k as int],), true)
                && forall|j: int| 0 <= j < k ==> call_ensures(p, (#[trigger] old(it).remaining()[j],), false),
            None => forall|j: int| 0 <= j < old(it).remaining().len()
                ==> call_ensures(p, (#[trigger] old(it).remaining()[j],), false),
        };

impl<T: Evaluate> Evaluate for Segment<T> {
    open spec fn ev(&self, v: f64) -> f64 { self.poly.ev(v) }
    open spec fn wf(&self) -> bool { self.poly.wf() }
//@extract file=src/piecewise.rs impl="impl<T: Evaluate> Evaluate for Segment<T>" fn=evaluate props=C02,C16
//@end
}

impl<T: Evaluate> Evaluate for Piecewise<T> {
    open spec fn wf(&self) -> bool {
        self.segments@.len() > 0 && forall|i: int| 0 <= i < self.segments@.len() ==> (#[trigger] self.segments@[i]).poly.wf()
    }
    open spec fn ev(&self, x: f64) -> f64 {
        self.segments@[sel(self.segments@, x)].poly.ev(x)
    }
//@extract file=src/piecewise.rs impl="impl<T: Evaluate> Evaluate for Piecewise<T>" fn=evaluate props=C02,C16
//@sub self.segments.iter().position(|seg| seg.end > x) =====> { let mut __it = self.segments.iter(); let ghost __rem = __it.remaining(); let __p = __it.position(|seg: &Segment<T>| -> (b: bool) ensures b == fgt(seg.end, x) { seg.end > x }); proof { let s = self.segments@; match __p { Some(k) => { assert forall|j: int| 0 <= j < k implies !fgt(#[trigger] s[j].end, x) by { assert(*__rem[j] == s[j]); } assert(*__rem[k as int] == s[k as int]); lemma_first_gt_char(s, x, 0, k as int); } None => { assert forall|j: int| 0 <= j < s.len() implies !fgt(#[trigger] s[j].end, x) by { assert(*__rem[j] == s[j]); } lemma_first_gt_char(s, x, 0, s.len() as int); } } } __p }
//@end
}

} // verus!
fn main() {}
