// Unit u_evalv: C12 — the body of the closure returned by Piecewise::evaluate_v as a step function over an abstract piece type,
// any number of segments, every non-NaN argument; the cursor invariant ev_inv makes the step contract inductive, so every argument
// sequence of any length is covered.  The selection vocabulary (first_gt, sel, sorted_ends, lemma_first_gt_char) and the contract of
// Piecewise::evaluate are those of u_pwsel (proved there; compared by tools/lint_contracts.py).
#![allow(unused_imports, unused_variables, dead_code, non_snake_case)]
use vstd::prelude::*;
use vstd::std_specs::iter::IteratorSpec;
//@include prelude_fm.rs
verus! {
use fm::*;
broadcast use {fm::float_bits, fm::float_order};

pub struct Segment<T> {
    pub end: f64,
    pub poly: T,
}
pub struct Piecewise<T> {
    pub segments: Vec<Segment<T>>,
}

//@trait file=src/poly.rs name=Evaluate
pub trait Evaluate {
    /// the bits this piece returns for argument v (abstract: any deterministic function)
    spec fn ev(&self, v: f64) -> f64;
    /// well-formedness required of the receiver (pieces: always true; Piecewise: non-empty)
    spec fn wf(&self) -> bool;
    fn evaluate(&self, v: f64) -> (r: f64)
        requires self.wf(),
        ensures !nan(v) ==> r == self.ev(v);   // C02 quantifies over non-NaN arguments; for NaN only termination without panic (C16)
}

// ---- the property's selection rule ------------------------------------------------------------
/// index of the first segment at or after `from` whose end is strictly greater than x (machine `>`:
/// false whenever a NaN is involved), or s.len() if there is none
pub open spec fn first_gt<T>(s: Seq<Segment<T>>, x: f64, from: int) -> int
    decreases s.len() - from
{
    if from >= s.len() { s.len() as int }
    else if fgt(s[from].end, x) { from }
    else { first_gt(s, x, from + 1) }
}
pub open spec fn sel<T>(s: Seq<Segment<T>>, x: f64) -> int {
    if first_gt(s, x, 0) < s.len() { first_gt(s, x, 0) } else { s.len() - 1 }
}

pub proof fn lemma_first_gt_char<T>(s: Seq<Segment<T>>, x: f64, from: int, k: int)
    requires 0 <= from <= k <= s.len(),
             forall|j: int| from <= j < k ==> !fgt(#[trigger] s[j].end, x),
             k < s.len() ==> fgt(s[k].end, x),
    ensures first_gt(s, x, from) == k,
    decreases k - from
{
    if from < k { lemma_first_gt_char(s, x, from + 1, k); }
}

pub open spec fn sorted_ends<T>(s: Seq<Segment<T>>) -> bool {
    (forall|k: int| 0 <= k < s.len() ==> !nan(#[trigger] s[k].end))
    && (forall|k: int, l: int| 0 <= k <= l < s.len() ==> ord(#[trigger] s[k].end) <= ord(#[trigger] s[l].end))
}
/// C02 corollaries (for non-decreasing, non-NaN ends and non-NaN x)
/// below the first end: the first segment (it extends to -infinity)
pub proof fn lemma_first_extends<T>(s: Seq<Segment<T>>, x: f64)
    requires s.len() > 0, sorted_ends(s), !nan(x), ord(x) < ord(s[0].end),
    ensures sel(s, x) == 0,
{
    lemma_first_gt_char(s, x, 0, 0);
}
/// at or beyond every end: the last segment (it extends to +infinity)
pub proof fn lemma_last_extends<T>(s: Seq<Segment<T>>, x: f64)
    requires s.len() > 0, sorted_ends(s), !nan(x), ord(s[s.len() - 1].end) <= ord(x),
    ensures sel(s, x) == s.len() - 1,
{
    assert forall|j: int| 0 <= j < s.len() implies !fgt(#[trigger] s[j].end, x) by { assert(ord(s[j].end) <= ord(s[s.len() - 1].end)); }
    lemma_first_gt_char(s, x, 0, s.len() as int);
}
/// a breakpoint belongs to the segment on its right: at x == end_i (with a strictly larger end somewhere after) the selected index is > i
pub proof fn lemma_breakpoint_goes_right<T>(s: Seq<Segment<T>>, x: f64, i: int, j: int)
    requires sorted_ends(s), 0 <= i < j < s.len(), !nan(x), ord(x) == ord(s[i].end), ord(s[i].end) < ord(s[j].end),
    ensures i < sel(s, x) <= j, ord(s[sel(s, x)].end) > ord(x),
{
    // the first index above x exists (j is one) and is beyond i because ends up to i are <= end_i == x
    lemma_exists_first_above(s, x, i + 1, j);
    let k = choose|k: int| i + 1 <= k <= j && fgt(s[k].end, x) && forall|l: int| i + 1 <= l < k ==> !fgt(#[trigger] s[l].end, x);
    assert forall|l: int| 0 <= l < k implies !fgt(#[trigger] s[l].end, x) by { if l <= i { assert(ord(s[l].end) <= ord(s[i].end)); } }
    lemma_first_gt_char(s, x, 0, k);
}
proof fn lemma_exists_first_above<T>(s: Seq<Segment<T>>, x: f64, lo: int, j: int)
    requires 0 <= lo <= j < s.len(), fgt(s[j].end, x),
    ensures exists|k: int| lo <= k <= j && fgt(s[k].end, x) && forall|l: int| lo <= l < k ==> !fgt(#[trigger] s[l].end, x),
    decreases j - lo,
{
    if fgt(s[lo].end, x) {
        assert(lo <= lo <= j && fgt(s[lo].end, x) && forall|l: int| lo <= l < lo ==> !fgt(#[trigger] s[l].end, x));
    } else {
        lemma_exists_first_above(s, x, lo + 1, j);
        let k = choose|k: int| lo + 1 <= k <= j && fgt(s[k].end, x) && forall|l: int| lo + 1 <= l < k ==> !fgt(#[trigger] s[l].end, x);
        assert(lo <= k <= j && fgt(s[k].end, x) && forall|l: int| lo <= l < k ==> !fgt(#[trigger] s[l].end, x));
    }
}

// trusted contracts of the std functions the body uses (see DESIGN 6/C02)
pub assume_specification<'a, T, P: FnMut(&'a T) -> bool>
    [ <core::slice::Iter<'a, T> as Iterator>::position ]
    (it: &mut core::slice::Iter<'a, T>, p: P) -> (r: Option<usize>)
    where core::slice::Iter<'a, T>: Sized
    requires
        forall|i: int| 0 <= i < old(it).remaining().len() ==> call_requires(p, (#[trigger] old(it).remaining()[i],)),
    ensures
        match r {
            Some(k) => k < old(it).remaining().len()
                && call_ensures(p, (old(it).remaining()[k as int],), true)
                && forall|j: int| 0 <= j < k ==> call_ensures(p, (#[trigger] old(it).remaining()[j],), false),
            None => forall|j: int| 0 <= j < old(it).remaining().len()
                ==> call_ensures(p, (#[trigger] old(it).remaining()[j],), false),
        };

impl<T: Evaluate> Evaluate for Segment<T> {
    open spec fn ev(&self, v: f64) -> f64 { self.poly.ev(v) }
    open spec fn wf(&self) -> bool { self.poly.wf() }
//@extract file=src/piecewise.rs impl="impl<T: Evaluate> Evaluate for Segment<T>" fn=evaluate mode=contract-only
//@end
}

// trusted contract of Option::map_or (elementary)
#[verifier::allow(undeclared_external_trait)]
pub assume_specification<T, U, F> [core::option::Option::<T>::map_or] (o: Option<T>, d: U, f: F) -> (r: U)
    where F: core::ops::FnOnce(T,) -> U + core::marker::Destruct, U: core::marker::Destruct,
    requires o is Some ==> call_requires(f, (o->0,)),
    ensures match o { Some(v) => call_ensures(f, (v,), r), None => r == d };

/// converse of lemma_first_gt_char: what first_gt(s, x, from) satisfies
pub proof fn lemma_first_gt_props<T>(s: Seq<Segment<T>>, x: f64, from: int)
    requires 0 <= from <= s.len(),
    ensures from <= first_gt(s, x, from) <= s.len(),
            forall|j: int| from <= j < first_gt(s, x, from) ==> !fgt(#[trigger] s[j].end, x),
            first_gt(s, x, from) < s.len() ==> fgt(s[first_gt(s, x, from)].end, x),
    decreases s.len() - from
{
    if from < s.len() && !fgt(s[from].end, x) { lemma_first_gt_props(s, x, from + 1); }
}
/// the running maximum of the arguments seen so far (m), after seeing x
pub open spec fn runmax(seen: bool, m: f64, x: f64) -> f64 { if seen && fgt(m, x) { m } else { x } }
/// state invariant of the closure returned by evaluate_v: before the first argument the cursor is 0, afterwards it is the
/// segment direct evaluation selects for the running maximum m
pub open spec fn ev_inv<T>(s: Seq<Segment<T>>, p: int, seen: bool, m: f64) -> bool {
    0 <= p < s.len() && (if seen { !nan(m) && p == sel(s, m) } else { p == 0 })
}
pub proof fn lemma_step_found<T>(s: Seq<Segment<T>>, p0: int, seen: bool, m: f64, x: f64, k: int)
    requires sorted_ends(s), ev_inv(s, p0, seen, m), !nan(x), 0 <= k, p0 + k < s.len(),
             flt(x, s[p0 + k].end),
             forall|j: int| p0 <= j < p0 + k ==> !flt(x, #[trigger] s[j].end),
    ensures sel(s, runmax(seen, m, x)) == p0 + k,
{
    let mm = runmax(seen, m, x);
    let p1 = p0 + k;
    if seen { lemma_first_gt_props(s, m, 0); }
    assert forall|j: int| 0 <= j < p1 implies !fgt(#[trigger] s[j].end, mm) by {
        if j < p0 { assert(seen); assert(!fgt(s[j].end, m)); } else { assert(!flt(x, s[j].end)); }
    }
    if seen && fgt(m, x) {
        if first_gt(s, m, 0) < s.len() {
            assert(ord(s[p0].end) <= ord(s[p1].end));
            assert(fgt(s[p1].end, mm));
            lemma_first_gt_char(s, mm, 0, p1);
        } else {
            // every end is <= m: the cursor is already the last segment
            assert(p0 == s.len() - 1 && k == 0);
            assert(sel(s, mm) == p1);
        }
    } else {
        assert(fgt(s[p1].end, mm));
        lemma_first_gt_char(s, mm, 0, p1);
    }
}
pub proof fn lemma_step_none<T>(s: Seq<Segment<T>>, p0: int, seen: bool, m: f64, x: f64)
    requires sorted_ends(s), ev_inv(s, p0, seen, m), !nan(x),
             forall|j: int| p0 <= j < s.len() ==> !flt(x, #[trigger] s[j].end),
    ensures sel(s, runmax(seen, m, x)) == s.len() - 1,
{
    let mm = runmax(seen, m, x);
    if seen { lemma_first_gt_props(s, m, 0); }
    assert forall|j: int| 0 <= j < s.len() implies !fgt(#[trigger] s[j].end, mm) by {
        if j < p0 { assert(seen); assert(!fgt(s[j].end, m)); } else { assert(!flt(x, s[j].end)); }
    }
    lemma_first_gt_char(s, mm, 0, s.len() as int);
}


impl<T: Evaluate> Evaluate for Piecewise<T> {
    open spec fn wf(&self) -> bool {
        self.segments@.len() > 0 && forall|i: int| 0 <= i < self.segments@.len() ==> (#[trigger] self.segments@[i]).poly.wf()
    }
    open spec fn ev(&self, x: f64) -> f64 {
        self.segments@[sel(self.segments@, x)].poly.ev(x)
    }
//@extract file=src/piecewise.rs impl="impl<T: Evaluate> Evaluate for Piecewise<T>" fn=evaluate mode=contract-only
//@end
}

impl<T: Evaluate> Piecewise<T> {
//@extract file=src/piecewise.rs impl="impl<T: Evaluate> Piecewise<T>" fn=evaluate_v props=C12,C16 ret=out closure="xs.into_iter().map(move |x| {" state=prev_seg wrapsha=842a1ed05994ee4f stepsig="fn evaluate_v_step(&self, prev_seg0: usize, x: f64, Ghost(seen): Ghost<bool>, Ghost(m): Ghost<f64>) -> (out: (f64, usize))"
//@contract
        requires self.wf(), prev_seg0 < self.segments@.len(),        // nothing else is needed for the absence of panics (C16): any f64 x, NaN included
        ensures out.1 < self.segments@.len(),
                (sorted_ends(self.segments@) && ev_inv(self.segments@, prev_seg0 as int, seen, m) && !nan(x)) ==> (
                    ev_inv(self.segments@, out.1 as int, true, runmax(seen, m, x))              // the cursor is the segment direct evaluation selects for the running maximum
                    && out.0 == self.segments@[out.1 as int].poly.ev(x)                          // evaluated at the argument itself
                    && (!(seen && fgt(m, x)) ==> out.0 == self.ev(x))),                          // non-decreasing so far: exactly what direct evaluation returns
//@sub self.segments[prev_seg..] =====> { let ghost s = self.segments@; let ghost p0 = prev_seg as int; let __sl = &self.segments[prev_seg..]; let mut __it = __sl
//@sub .position(|seg| x < seg.end) =====> ; let ghost __rem = __it.remaining(); let __p = __it.position(|seg: &Segment<T>| -> (b: bool) ensures b == flt(x, seg.end) { x < seg.end }); proof { assert(__sl@ == s.subrange(p0, s.len() as int)); if sorted_ends(s) && ev_inv(s, p0, seen, m) && !nan(x) { match __p { Some(k) => { assert forall|j: int| p0 <= j < p0 + k implies !flt(x, #[trigger] s[j].end) by { assert(*__rem[j - p0] == s[j]); } assert(*__rem[k as int] == s[p0 + k]); lemma_step_found(s, p0, seen, m, x, k as int); } None => { assert forall|j: int| p0 <= j < s.len() implies !flt(x, #[trigger] s[j].end) by { assert(*__rem[j - p0] == s[j]); } lemma_step_none(s, p0, seen, m, x); } } } } __p }
//@closure-spec |i| usize usize
//@end
}

/// C12, whole histories: the step contract is inductive in ev_inv, so by induction over the argument sequence output k is
/// segments[sel(segments, max(x_0..x_k))].poly.ev(x_k), and for a non-decreasing sequence it is evaluate(x_k).
/// Initial state established by the wrapper (`let mut prev_seg = 0;`, pinned by hash, exercised by the Kani harnesses):
pub proof fn lemma_initial_state<T>(s: Seq<Segment<T>>)
    requires s.len() > 0,
    ensures ev_inv(s, 0, false, arbitrary::<f64>()),
{}

} // verus!
fn main() {}
