// ===== vocabulary of the rounding-error analysis (standard model of floating-point arithmetic) ====================
/// unit roundoff of binary64
pub open spec fn uu() -> real { 1real / 9007199254740992real }
pub open spec fn pu(k: nat) -> real { pw(1real + uu(), k) }
/// gamma-like factor (1+u)^k - 1
pub open spec fn g(k: nat) -> real { pu(k) - 1real }
pub open spec fn ab(x: real) -> real { if x >= 0real { x } else { -x } }
/// sum_{i<n} |c_i| |x|^i
pub open spec fn pabs(c: Seq<f64>, x: real, n: nat) -> real
    decreases n
{
    if n == 0 { 0real } else { pabs(c, x, (n - 1) as nat) + ab(rv(c[n - 1])) * pw(ab(x), (n - 1) as nat) }
}
