//! Double-double arithmetic (about 106 bits) used as the reference for numeric postconditions.
#[derive(Clone, Copy, Debug)]
pub struct DD(pub f64, pub f64);

#[inline]
fn two_sum(a: f64, b: f64) -> (f64, f64) {
    let s = a + b;
    let bb = s - a;
    let e = (a - (s - bb)) + (b - bb);
    (s, e)
}
#[inline]
fn two_prod(a: f64, b: f64) -> (f64, f64) {
    let p = a * b;
    let e = a.mul_add(b, -p);
    (p, e)
}
impl DD {
    pub fn from(a: f64) -> DD { DD(a, 0.0) }
    pub fn add(self, o: DD) -> DD {
        let (s, e) = two_sum(self.0, o.0);
        let e = e + self.1 + o.1;
        let (s, e) = two_sum(s, e);
        DD(s, e)
    }
    pub fn neg(self) -> DD { DD(-self.0, -self.1) }
    pub fn sub(self, o: DD) -> DD { self.add(o.neg()) }
    pub fn mul(self, o: DD) -> DD {
        let (p, e) = two_prod(self.0, o.0);
        let e = e + self.0 * o.1 + self.1 * o.0;
        let (s, e) = two_sum(p, e);
        DD(s, e)
    }
    pub fn div(self, o: DD) -> DD {
        let q1 = self.0 / o.0;
        let r = self.sub(o.mul(DD::from(q1)));
        let q2 = r.0 / o.0;
        let r = r.sub(o.mul(DD::from(q2)));
        let q3 = r.0 / o.0;
        DD::from(q1).add(DD::from(q2)).add(DD::from(q3))
    }
    pub fn to_f64(self) -> f64 { self.0 + self.1 }
    pub fn abs(self) -> DD { if self.0 < 0.0 || (self.0 == 0.0 && self.1 < 0.0) { self.neg() } else { self } }
    /// natural log by one Newton step on exp (enough for ~1e-30 relative when |x| moderate)
    pub fn ln(self) -> DD {
        // rescale extreme arguments so that exp(-y0) below stays finite
        if self.0 > 0.0 && self.0 < 1e-290 {
            let k = 600.0f64;
            let ln2 = DD(0.6931471805599453, 2.3190468138462996e-17);
            let sc = DD(self.0 * (2.0f64).powi(600), self.1 * (2.0f64).powi(600));
            return sc.ln().sub(ln2.mul(DD::from(k)));
        }
        if self.0 > 1e290 {
            let k = 600.0f64;
            let ln2 = DD(0.6931471805599453, 2.3190468138462996e-17);
            let sc = DD(self.0 * (2.0f64).powi(-600), self.1 * (2.0f64).powi(-600));
            return sc.ln().add(ln2.mul(DD::from(k)));
        }
        let y0 = self.0.ln();
        // y1 = y0 + (x*exp(-y0) - 1)
        let e = DD::exp(DD::from(-y0));
        let t = self.mul(e).sub(DD::from(1.0));
        // second-order correction: ln(1+t) ~ t - t^2/2
        let t2 = t.mul(t).mul(DD::from(0.5));
        DD::from(y0).add(t).sub(t2)
    }
    /// exp by argument reduction and Taylor series in DD
    pub fn exp(x: DD) -> DD {
        let ln2 = DD(0.6931471805599453, 2.3190468138462996e-17);
        let k = (x.0 / ln2.0).round();
        let r = x.sub(ln2.mul(DD::from(k)));
        // r in [-0.35, 0.35]; scale down by 2^8
        let r = r.mul(DD::from(1.0 / 256.0));
        let mut term = DD::from(1.0);
        let mut sum = DD::from(1.0);
        for i in 1..25 {
            term = term.mul(r).div(DD::from(i as f64));
            sum = sum.add(term);
        }
        let mut s = sum;
        for _ in 0..8 { s = s.mul(s); }
        let sc = (2.0f64).powi(k as i32);
        DD(s.0 * sc, s.1 * sc)
    }
}
pub fn polyval_dd(c: &[f64], x: f64) -> (DD, f64) {
    // returns (sum c_i x^i in DD, sum |c_i||x|^i in f64)
    let mut acc = DD::from(0.0);
    let mut mag = 0.0f64;
    for &ci in c.iter().rev() {
        acc = acc.mul(DD::from(x)).add(DD::from(ci));
        mag = mag * x.abs() + ci.abs();
    }
    (acc, mag)
}
