//! probe <PROP> <seed> <max_cases>   -> prints one JSON object: {"cases":N,"failure":null|{...}}
//! replay <kind> <hex u64 params...> -> re-runs one stored case, exit 1 if it (still) fails
mod dd;
mod cases;

fn main() {
    let args: Vec<String> = std::env::args().collect();
    if args.len() >= 3 && args[1] == "probe" {
        let prop = &args[2];
        let seed: u64 = args.get(3).and_then(|s| s.parse().ok()).unwrap_or(0);
        let n: usize = args.get(4).and_then(|s| s.parse().ok()).unwrap_or(2000);
        let mut rng = cases::Rng::new(seed ^ 0x9E3779B97F4A7C15);
        let mut count = 0usize;
        let mut failure: Option<(cases::Case, String)> = None;
        for c in cases::generate(prop, &mut rng, n) {
            count += 1;
            if let Some(why) = cases::run_case_caught(&c) {
                failure = Some((c, why));
                break;
            }
        }
        match failure {
            None => println!("{{\"cases\":{},\"failure\":null}}", count),
            Some((c, why)) => println!(
                "{{\"cases\":{},\"failure\":{{\"kind\":\"{}\",\"params\":[{}],\"values\":[{}],\"why\":{:?}}}}}",
                count,
                c.kind,
                c.params.iter().map(|p| format!("\"{:016x}\"", p)).collect::<Vec<_>>().join(","),
                c.params.iter().map(|p| format!("\"{:e}\"", f64::from_bits(*p))).collect::<Vec<_>>().join(","),
                why
            ),
        }
    } else if args.len() >= 3 && args[1] == "replay" {
        let kind = args[2].clone();
        let params: Vec<u64> = args[3..].iter().map(|s| u64::from_str_radix(s, 16).expect("hex param")).collect();
        let c = cases::Case { kind, params };
        match cases::run_case_caught(&c) {
            None => {
                println!("REPLAY: case passes on this tree");
            }
            Some(why) => {
                println!("REPLAY: case FAILS on this tree: {}", why);
                std::process::exit(1);
            }
        }
    } else {
        eprintln!("usage: probe <PROP> <seed> <n> | replay <kind> <hex...>");
        std::process::exit(2);
    }
}
