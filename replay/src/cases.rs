//! Case generators and predicates, one family per property.
use crate::dd::*;
use piecewise_polynomial::*;

#[derive(Clone, Debug)]
pub struct Case {
    pub kind: String,
    pub params: Vec<u64>,
}

pub struct Rng(u64);
impl Rng {
    pub fn new(s: u64) -> Rng { Rng(if s == 0 { 0x1234567 } else { s }) }
    pub fn next(&mut self) -> u64 {
        let mut x = self.0;
        x ^= x << 13; x ^= x >> 7; x ^= x << 17;
        self.0 = x;
        x.wrapping_mul(0x2545F4914F6CDD1D)
    }
    pub fn below(&mut self, n: u64) -> u64 { self.next() % n }
    pub fn unit(&mut self) -> f64 { (self.next() >> 11) as f64 / (1u64 << 53) as f64 }
    /// a finite float of moderate magnitude in one of several styles
    pub fn float(&mut self) -> f64 {
        match self.below(8) {
            0 => 0.0,
            1 => (self.below(19) as f64) - 9.0,
            2 => ((self.below(39) as f64) - 19.0) * 0.5,
            3 => (self.unit() - 0.5) * 8.0,
            4 => { let e = self.below(41) as i32 - 20; (self.unit() - 0.5) * (2.0f64).powi(e) }
            5 => { let e = self.below(13) as i32 - 6; (if self.below(2) == 0 { 1.0 } else { -1.0 }) * (2.0f64).powi(e) }
            6 => ((self.below(2001) as f64) - 1000.0) / 7.0,
            _ => (self.unit() - 0.5) * 2.0,
        }
    }
    pub fn pos(&mut self) -> f64 {
        match self.below(6) {
            0 => 1.0,
            1 => 1.0 + (self.unit() - 0.5) * 1e-6,
            2 => self.unit() * 10.0 + 1e-3,
            3 => (self.unit() * 40.0 - 20.0).exp(),
            4 => (self.below(20) + 1) as f64 * 0.5,
            _ => self.unit() + 0.5,
        }
    }
}

fn b(x: f64) -> u64 { x.to_bits() }
fn f(x: u64) -> f64 { f64::from_bits(x) }
fn case(kind: &str, v: &[f64]) -> Case { Case { kind: kind.to_string(), params: v.iter().map(|x| b(*x)).collect() } }

const U: f64 = 1.1102230246251565e-16; // 2^-53

pub fn run_case_caught(c: &Case) -> Option<String> {
    let c2 = c.clone();
    let prev = std::panic::take_hook();
    std::panic::set_hook(Box::new(|_| {}));
    let r = std::panic::catch_unwind(move || run_case(&c2));
    std::panic::set_hook(prev);
    match r {
        Ok(x) => x,
        Err(e) => {
            let msg = if let Some(s) = e.downcast_ref::<&str>() { s.to_string() } else if let Some(s) = e.downcast_ref::<String>() { s.clone() } else { "panic".to_string() };
            if c.kind.ends_with("_mustpanic") { None } else { Some(format!("PANIC: {}", msg)) }
        }
    }
}

pub fn generate(prop: &str, rng: &mut Rng, n: usize) -> Vec<Case> {
    let mut out = Vec::new();
    match prop {
        "C01" => gen_c01(rng, n, &mut out),
        "C07" => gen_c07(rng, n, &mut out),
        "C08" => gen_c08(rng, n, &mut out),
        _ => {}
    }
    out
}

pub fn run_case(c: &Case) -> Option<String> {
    let p: Vec<f64> = c.params.iter().map(|x| f(*x)).collect();
    let k = c.kind.as_str();
    if let Some(rest) = k.strip_prefix("c01_poly") { return run_c01(rest, &p, false); }
    if let Some(rest) = k.strip_prefix("c01_log") { return run_c01(rest, &p, true); }
    if let Some(rest) = k.strip_prefix("c08_deriv") { return run_c08(rest.parse().ok()?, &p); }
    if k == "c08_piecewise" { return run_c08_pw(&p); }
    if let Some(rest) = k.strip_prefix("c07_indef") { return run_c07(rest.parse().ok()?, &p, false); }
    if let Some(rest) = k.strip_prefix("c07_integral") { return run_c07(rest.parse().ok()?, &p, true); }
    Some(format!("unknown case kind {}", k))
}

// ------------------------------------------------------------------------------------------ C01
fn eval_fixed(deg: usize, c: &[f64], x: f64, log: bool) -> f64 {
    macro_rules! go { ($t:ident, $n:expr) => {{ let mut a = [0.0f64; $n]; a.copy_from_slice(&c[..$n]); if log { Log($t(a)).evaluate(x) } else { $t(a).evaluate(x) } }}; }
    match deg {
        0 => if log { Log(Poly0(c[0])).evaluate(x) } else { Poly0(c[0]).evaluate(x) },
        1 => go!(Poly1, 2), 2 => go!(Poly2, 3), 3 => go!(Poly3, 4), 4 => go!(Poly4, 5),
        5 => go!(Poly5, 6), 6 => go!(Poly6, 7), 7 => go!(Poly7, 8), 8 => go!(Poly8, 9),
        _ => unreachable!(),
    }
}

fn run_c01(which: &str, p: &[f64], log: bool) -> Option<String> {
    let (coeffs, x) = p.split_at(p.len() - 1);
    let x = x[0];
    let got = if which == "n" {
        if log { Log(PolyN(coeffs.to_vec())).evaluate(x) } else { PolyN(coeffs.to_vec()).evaluate(x) }
    } else {
        let deg: usize = which.parse().ok()?;
        eval_fixed(deg, coeffs, x, log)
    };
    let n = coeffs.len() as f64;
    let (want, mag, extra) = if log {
        let l = DD::from(x).ln();
        let lf = l.to_f64();
        let (w, m) = polyval_dd(coeffs, lf);
        // propagate the DD tail of ln and one ulp of ln through |p'(L)|
        let mut dmag = 0.0;
        for (i, ci) in coeffs.iter().enumerate().skip(1) { dmag += (i as f64) * ci.abs() * lf.abs().powi(i as i32 - 1); }
        // recompute at the DD point: p(l) ~ p(lf) + p'(lf) * l.tail
        let mut d = 0.0;
        for (i, ci) in coeffs.iter().enumerate().skip(1) { d += (i as f64) * ci * lf.powi(i as i32 - 1); }
        let w = w.add(DD::from(d * (l.to_f64() - lf + (l.1 - (l.to_f64() - l.0)))));
        (w, m, dmag * lf.abs().max(f64::MIN_POSITIVE) * 2.0 * U * 2.0)
    } else {
        let (w, m) = polyval_dd(coeffs, x);
        (w, m, 0.0)
    };
    let err = DD::from(got).sub(want).abs().to_f64();
    let bound = 4.0 * (n + 2.0) * U * mag + extra + mag * 1e-30;
    if !(err <= bound) {
        return Some(format!("evaluate returned {:e}, sum c_i x^i = {:e}, |diff| {:e} > bound {:e}", got, want.to_f64(), err, bound));
    }
    None
}

fn gen_c01(rng: &mut Rng, n: usize, out: &mut Vec<Case>) {
    let xs = [2.0, -2.0, 3.0, 0.5, -1.0, 1.0, 0.0, 10.0, -0.25];
    // deterministic battery: one-hot and zero-at-position vectors for every fixed degree
    for deg in 0..=8usize {
        for pos in 0..=deg {
            for &x in xs.iter() {
                let mut c = vec![0.0; deg + 1];
                c[pos] = 1.0;
                let mut v = c.clone(); v.push(x);
                out.push(case(&format!("c01_poly{}", deg), &v));
                let mut z: Vec<f64> = (0..=deg).map(|i| (i as f64) + 2.0).collect();
                z[pos] = 0.0;
                z.push(x);
                out.push(case(&format!("c01_poly{}", deg), &z));
                if x > 0.0 {
                    let mut lv = c.clone(); lv.push(x.exp());
                    out.push(case(&format!("c01_log{}", deg), &lv));
                }
            }
        }
    }
    for len in 0..=12usize {
        for pos in 0..len.max(1) {
            for &x in xs.iter() {
                let mut c = vec![0.0; len];
                if len > 0 { c[pos] = 1.0; }
                c.push(x);
                out.push(case("c01_polyn", &c));
                let mut z: Vec<f64> = (0..len).map(|i| (i as f64) + 2.0).collect();
                if len > 0 { z[pos] = 0.0; }
                z.push(x);
                out.push(case("c01_polyn", &z));
            }
        }
    }
    while out.len() < n {
        let deg = rng.below(10) as usize;
        if deg == 9 {
            let len = rng.below(13) as usize;
            let mut c: Vec<f64> = (0..len).map(|_| rng.float()).collect();
            c.push(rng.float());
            out.push(case("c01_polyn", &c));
        } else {
            let mut c: Vec<f64> = (0..=deg).map(|_| rng.float()).collect();
            if rng.below(3) == 0 {
                c.push(rng.pos());
                out.push(case(&format!("c01_log{}", deg), &c));
            } else {
                c.push(rng.float());
                out.push(case(&format!("c01_poly{}", deg), &c));
            }
        }
    }
}

// ------------------------------------------------------------------------------------- C07 / C08
impl Rng {
    /// finite floats including extreme magnitudes
    pub fn wide(&mut self) -> f64 {
        match self.below(10) {
            0 => f64::MAX / (1.0 + self.below(16) as f64 * 0.5),
            1 => -f64::MAX / (1.0 + self.below(16) as f64 * 0.5),
            2 => f64::MIN_POSITIVE * (1.0 + self.below(9) as f64),
            3 => 5e-324 * (1 + self.below(7)) as f64,
            4 => -0.0,
            _ => self.float(),
        }
    }
    pub fn odd(&mut self) -> f64 {
        // values whose quotients/products by small integers are inexact
        let base = [5.0, 7.0, 10.0, 14.0, 25.0, 0.1, 0.3, 1.0 / 3.0, 2.0 / 3.0, 1e-3, 12345.678, -7.0, -0.7];
        base[self.below(base.len() as u64) as usize] * (if self.below(4) == 0 { (2.0f64).powi(self.below(40) as i32 - 20) } else { 1.0 })
    }
}

macro_rules! with_poly {
    ($deg:expr, $c:expr, |$p:ident| $body:expr) => {{
        macro_rules! arr { ($n:expr) => {{ let mut a = [0.0f64; $n]; a.copy_from_slice(&$c[..$n]); a }}; }
        match $deg {
            1 => { let $p = Poly1(arr!(2)); $body }
            2 => { let $p = Poly2(arr!(3)); $body }
            3 => { let $p = Poly3(arr!(4)); $body }
            4 => { let $p = Poly4(arr!(5)); $body }
            5 => { let $p = Poly5(arr!(6)); $body }
            6 => { let $p = Poly6(arr!(7)); $body }
            7 => { let $p = Poly7(arr!(8)); $body }
            _ => unreachable!(),
        }
    }};
}

fn deriv_coeffs(deg: usize, c: &[f64]) -> Vec<f64> {
    macro_rules! arr { ($n:expr) => {{ let mut a = [0.0f64; $n]; a.copy_from_slice(&c[..$n]); a }}; }
    match deg {
        0 => vec![Poly0(c[0]).derivative().0],
        1 => vec![Poly1(arr!(2)).derivative().0],
        2 => Poly2(arr!(3)).derivative().0.to_vec(),
        3 => Poly3(arr!(4)).derivative().0.to_vec(),
        4 => Poly4(arr!(5)).derivative().0.to_vec(),
        5 => Poly5(arr!(6)).derivative().0.to_vec(),
        6 => Poly6(arr!(7)).derivative().0.to_vec(),
        7 => Poly7(arr!(8)).derivative().0.to_vec(),
        8 => Poly8(arr!(9)).derivative().0.to_vec(),
        _ => unreachable!(),
    }
}

fn run_c08(deg: usize, c: &[f64]) -> Option<String> {
    let d = deriv_coeffs(deg, c);
    if deg == 0 {
        if d.len() != 1 || d[0] != 0.0 { return Some(format!("derivative of a constant is {:?}, expected the zero constant", d)); }
        return None;
    }
    if d.len() != deg { return Some(format!("derivative has {} coefficients, expected {}", d.len(), deg)); }
    for i in 0..deg {
        let want = if i == 0 { c[1] } else { (i as f64 + 1.0) * c[i + 1] };
        if d[i].to_bits() != want.to_bits() && !(d[i] == 0.0 && want == 0.0) {
            return Some(format!("derivative coefficient {} is {:e}, (i+1)*c_(i+1) correctly rounded is {:e}", i, d[i], want));
        }
    }
    None
}

fn run_c08_pw(p: &[f64]) -> Option<String> {
    // params: n, then n * (end, c0..c3)
    let n = p[0] as usize;
    let mut segs = Vec::new();
    for i in 0..n {
        let o = 1 + i * 5;
        segs.push(Segment { end: p[o], poly: Poly3([p[o + 1], p[o + 2], p[o + 3], p[o + 4]]) });
    }
    let pw = Piecewise { segments: segs.clone() };
    let d = pw.derivative();
    if d.segments.len() != n { return Some(format!("derivative has {} pieces, the function has {}", d.segments.len(), n)); }
    for i in 0..n {
        if d.segments[i].end.to_bits() != segs[i].end.to_bits() { return Some(format!("breakpoint {} changed from {:e} to {:e}", i, segs[i].end, d.segments[i].end)); }
        let want = segs[i].poly.derivative();
        if d.segments[i].poly != want && !(want.0.iter().any(|x| x.is_nan())) { return Some(format!("piece {} is {:?}, derivative of the piece is {:?}", i, d.segments[i].poly, want)); }
        let sd = segs[i].derivative();
        if sd.end.to_bits() != segs[i].end.to_bits() || sd.poly != want { return Some(format!("Segment::derivative of piece {} is wrong", i)); }
    }
    None
}

fn gen_c08(rng: &mut Rng, n: usize, out: &mut Vec<Case>) {
    for deg in 0..=8usize {
        for pos in 0..=deg {
            let mut c = vec![0.0; deg + 1]; c[pos] = 1.0; out.push(case(&format!("c08_deriv{}", deg), &c));
            let mut c: Vec<f64> = (0..=deg).map(|i| 3.0 + i as f64 * 1.25).collect(); c[pos] = 0.7; out.push(case(&format!("c08_deriv{}", deg), &c));
            let mut c = vec![1.0; deg + 1]; c[pos] = f64::MAX / (pos as f64 + 0.5).max(1.0); out.push(case(&format!("c08_deriv{}", deg), &c));
            let mut c = vec![1.0; deg + 1]; c[pos] = f64::MAX / (pos as f64 + 1.5); out.push(case(&format!("c08_deriv{}", deg), &c));
        }
    }
    // piecewise: equal neighbouring derivatives, duplicate ends, single piece
    let pieces = [[1.0, 2.0, 3.0, 4.0], [5.0, 2.0, 3.0, 4.0], [5.0, 2.5, 3.0, 4.0], [0.0, 0.0, 0.0, 0.0]];
    for ends in [vec![1.0], vec![1.0, 2.0], vec![1.0, 1.0, 2.0], vec![-1.0, 0.0, 0.0, 3.0], vec![1.0, 2.0, 3.0, 3.0]] {
        let mut v = vec![ends.len() as f64];
        for (i, e) in ends.iter().enumerate() { v.push(*e); v.extend_from_slice(&pieces[i % 2]); }
        out.push(case("c08_piecewise", &v));
        let mut v = vec![ends.len() as f64];
        for (i, e) in ends.iter().enumerate() { v.push(*e); v.extend_from_slice(&pieces[(i + 1) % 4]); }
        out.push(case("c08_piecewise", &v));
    }
    while out.len() < n {
        if rng.below(5) == 0 {
            let k = 1 + rng.below(5) as usize;
            let mut ends: Vec<f64> = (0..k).map(|_| (rng.below(7) as f64) - 3.0).collect();
            ends.sort_by(|a, b| a.partial_cmp(b).unwrap());
            let mut v = vec![k as f64];
            for e in ends { v.push(e); for j in 0..4 { v.push(if j == 0 { rng.float() } else { (rng.below(3) as f64) }); } }
            out.push(case("c08_piecewise", &v));
        } else {
            let deg = rng.below(9) as usize;
            let c: Vec<f64> = (0..=deg).map(|_| match rng.below(3) { 0 => rng.wide(), 1 => rng.odd(), _ => rng.float() }).collect();
            out.push(case(&format!("c08_deriv{}", deg), &c));
        }
    }
}

fn indef_coeffs(deg: usize, c: &[f64], knot: Option<Knot>) -> Vec<f64> {
    if deg == 0 {
        let p = Poly0(c[0]);
        return match knot { None => p.indefinite().0.to_vec(), Some(k) => p.integral(k).0.to_vec() };
    }
    with_poly!(deg, c, |p| match knot { None => p.indefinite().0.to_vec(), Some(k) => p.integral(k).0.to_vec() })
}

fn run_c07(deg: usize, p: &[f64], with_knot: bool) -> Option<String> {
    let (c, knot) = if with_knot { (&p[..deg + 1], Some(Knot { x: p[deg + 1], y: p[deg + 2] })) } else { (&p[..], None) };
    let r = indef_coeffs(deg, c, knot);
    if r.len() != deg + 2 { return Some(format!("result has {} coefficients, expected {}", r.len(), deg + 2)); }
    for i in 0..=deg {
        let want = if i == 0 { c[0] } else { c[i] / (i as f64 + 1.0) };
        if r[i + 1].to_bits() != want.to_bits() && !(r[i + 1] == 0.0 && want == 0.0) {
            return Some(format!("coefficient {} of the integral is {:e}, c_{}/{} correctly rounded is {:e}", i + 1, r[i + 1], i, i + 1, want));
        }
    }
    match knot {
        None => { if r[0] != 0.0 { return Some(format!("indefinite() has constant term {:e}, expected 0", r[0])); } }
        Some(k) => {
            let (v, mag) = polyval_dd(&r, k.x);
            if !(v.to_f64().is_finite() && mag.is_finite()) { return None; } // overflow is outside the property
            let err = v.sub(DD::from(k.y)).abs().to_f64();
            let bound = 8.0 * (deg as f64 + 4.0) * U * (mag + k.y.abs()) + f64::MIN_POSITIVE;
            if !(err <= bound) { return Some(format!("F(knot.x) = {:e} but knot.y = {:e} (|diff| {:e} > rounding bound {:e})", v.to_f64(), k.y, err, bound)); }
        }
    }
    None
}

fn gen_c07(rng: &mut Rng, n: usize, out: &mut Vec<Case>) {
    let knots = [(0.0, 1.0), (0.0, 0.0), (2.0, 5.0), (-1.5, 0.25), (3.0, 1e-17), (1.0, -1e-18), (0.5, 1e-300), (1e-9, 3.0)];
    for deg in 0..=7usize {
        for pos in 0..=deg {
            let mut c = vec![0.0; deg + 1]; c[pos] = 7.0; out.push(case(&format!("c07_indef{}", deg), &c));
            let mut c: Vec<f64> = (0..=deg).map(|i| 5.0 + i as f64).collect(); c[pos] = 0.7; out.push(case(&format!("c07_indef{}", deg), &c));
            for &(x, y) in knots.iter() {
                let mut c = vec![0.0; deg + 1]; c[pos] = if pos % 2 == 0 { 7.0 } else { 0.0 };
                c.push(x); c.push(y);
                out.push(case(&format!("c07_integral{}", deg), &c));
                let mut c: Vec<f64> = (0..=deg).map(|i| 1.0 + i as f64).collect(); c.push(x); c.push(y);
                out.push(case(&format!("c07_integral{}", deg), &c));
            }
        }
    }
    while out.len() < n {
        let deg = rng.below(8) as usize;
        let mut c: Vec<f64> = (0..=deg).map(|_| match rng.below(3) { 0 => rng.odd(), _ => rng.float() }).collect();
        if rng.below(2) == 0 {
            out.push(case(&format!("c07_indef{}", deg), &c));
        } else {
            c.push(if rng.below(4) == 0 { 0.0 } else { rng.float() });
            c.push(match rng.below(4) { 0 => 0.0, 1 => rng.float() * 1e-17, _ => rng.float() });
            out.push(case(&format!("c07_integral{}", deg), &c));
        }
    }
}
