//! Case generators and predicates, one family per property.
use crate::dd::*;
use piecewise_polynomial::*;

#[derive(Clone, Debug)]
pub struct Case {
    pub kind: String,
    pub params: Vec<u64>,
}

pub struct Rng(u64);
impl Rng {
    pub fn new(s: u64) -> Rng { Rng(if s == 0 { 0x1234567 } else { s }) }
    pub fn next(&mut self) -> u64 {
        let mut x = self.0;
        x ^= x << 13; x ^= x >> 7; x ^= x << 17;
        self.0 = x;
        x.wrapping_mul(0x2545F4914F6CDD1D)
    }
    pub fn below(&mut self, n: u64) -> u64 { self.next() % n }
    pub fn unit(&mut self) -> f64 { (self.next() >> 11) as f64 / (1u64 << 53) as f64 }
    /// a finite float of moderate magnitude in one of several styles
    pub fn float(&mut self) -> f64 {
        match self.below(8) {
            0 => 0.0,
            1 => (self.below(19) as f64) - 9.0,
            2 => ((self.below(39) as f64) - 19.0) * 0.5,
            3 => (self.unit() - 0.5) * 8.0,
            4 => { let e = self.below(41) as i32 - 20; (self.unit() - 0.5) * (2.0f64).powi(e) }
            5 => { let e = self.below(13) as i32 - 6; (if self.below(2) == 0 { 1.0 } else { -1.0 }) * (2.0f64).powi(e) }
            6 => ((self.below(2001) as f64) - 1000.0) / 7.0,
            _ => (self.unit() - 0.5) * 2.0,
        }
    }
    pub fn pos(&mut self) -> f64 {
        match self.below(6) {
            0 => 1.0,
            1 => 1.0 + (self.unit() - 0.5) * 1e-6,
            2 => self.unit() * 10.0 + 1e-3,
            3 => (self.unit() * 40.0 - 20.0).exp(),
            4 => (self.below(20) + 1) as f64 * 0.5,
            _ => self.unit() + 0.5,
        }
    }
}

fn b(x: f64) -> u64 { x.to_bits() }
fn f(x: u64) -> f64 { f64::from_bits(x) }
fn case(kind: &str, v: &[f64]) -> Case { Case { kind: kind.to_string(), params: v.iter().map(|x| b(*x)).collect() } }

const U: f64 = 1.1102230246251565e-16; // 2^-53

pub fn run_case_caught(c: &Case) -> Option<String> {
    let c2 = c.clone();
    let prev = std::panic::take_hook();
    std::panic::set_hook(Box::new(|_| {}));
    let r = std::panic::catch_unwind(move || run_case(&c2));
    std::panic::set_hook(prev);
    match r {
        Ok(x) => x,
        Err(e) => {
            let msg = if let Some(s) = e.downcast_ref::<&str>() { s.to_string() } else if let Some(s) = e.downcast_ref::<String>() { s.clone() } else { "panic".to_string() };
            if c.kind.ends_with("_mustpanic") { None } else { Some(format!("PANIC: {}", msg)) }
        }
    }
}

pub fn generate(prop: &str, rng: &mut Rng, n: usize) -> Vec<Case> {
    let mut out = Vec::new();
    match prop {
        "C01" => gen_c01(rng, n, &mut out),
        _ => {}
    }
    out
}

pub fn run_case(c: &Case) -> Option<String> {
    let p: Vec<f64> = c.params.iter().map(|x| f(*x)).collect();
    let k = c.kind.as_str();
    if let Some(rest) = k.strip_prefix("c01_poly") { return run_c01(rest, &p, false); }
    if let Some(rest) = k.strip_prefix("c01_log") { return run_c01(rest, &p, true); }
    Some(format!("unknown case kind {}", k))
}

// ------------------------------------------------------------------------------------------ C01
fn eval_fixed(deg: usize, c: &[f64], x: f64, log: bool) -> f64 {
    macro_rules! go { ($t:ident, $n:expr) => {{ let mut a = [0.0f64; $n]; a.copy_from_slice(&c[..$n]); if log { Log($t(a)).evaluate(x) } else { $t(a).evaluate(x) } }}; }
    match deg {
        0 => if log { Log(Poly0(c[0])).evaluate(x) } else { Poly0(c[0]).evaluate(x) },
        1 => go!(Poly1, 2), 2 => go!(Poly2, 3), 3 => go!(Poly3, 4), 4 => go!(Poly4, 5),
        5 => go!(Poly5, 6), 6 => go!(Poly6, 7), 7 => go!(Poly7, 8), 8 => go!(Poly8, 9),
        _ => unreachable!(),
    }
}

fn run_c01(which: &str, p: &[f64], log: bool) -> Option<String> {
    let (coeffs, x) = p.split_at(p.len() - 1);
    let x = x[0];
    let got = if which == "n" {
        if log { Log(PolyN(coeffs.to_vec())).evaluate(x) } else { PolyN(coeffs.to_vec()).evaluate(x) }
    } else {
        let deg: usize = which.parse().ok()?;
        eval_fixed(deg, coeffs, x, log)
    };
    let n = coeffs.len() as f64;
    let (want, mag, extra) = if log {
        let l = DD::from(x).ln();
        let lf = l.to_f64();
        let (w, m) = polyval_dd(coeffs, lf);
        // propagate the DD tail of ln and one ulp of ln through |p'(L)|
        let mut dmag = 0.0;
        for (i, ci) in coeffs.iter().enumerate().skip(1) { dmag += (i as f64) * ci.abs() * lf.abs().powi(i as i32 - 1); }
        // recompute at the DD point: p(l) ~ p(lf) + p'(lf) * l.tail
        let mut d = 0.0;
        for (i, ci) in coeffs.iter().enumerate().skip(1) { d += (i as f64) * ci * lf.powi(i as i32 - 1); }
        let w = w.add(DD::from(d * (l.to_f64() - lf + (l.1 - (l.to_f64() - l.0)))));
        (w, m, dmag * lf.abs().max(f64::MIN_POSITIVE) * 2.0 * U * 2.0)
    } else {
        let (w, m) = polyval_dd(coeffs, x);
        (w, m, 0.0)
    };
    let err = DD::from(got).sub(want).abs().to_f64();
    let bound = 4.0 * (n + 2.0) * U * mag + extra + mag * 1e-30;
    if !(err <= bound) {
        return Some(format!("evaluate returned {:e}, sum c_i x^i = {:e}, |diff| {:e} > bound {:e}", got, want.to_f64(), err, bound));
    }
    None
}

fn gen_c01(rng: &mut Rng, n: usize, out: &mut Vec<Case>) {
    let xs = [2.0, -2.0, 3.0, 0.5, -1.0, 1.0, 0.0, 10.0, -0.25];
    // deterministic battery: one-hot and zero-at-position vectors for every fixed degree
    for deg in 0..=8usize {
        for pos in 0..=deg {
            for &x in xs.iter() {
                let mut c = vec![0.0; deg + 1];
                c[pos] = 1.0;
                let mut v = c.clone(); v.push(x);
                out.push(case(&format!("c01_poly{}", deg), &v));
                let mut z: Vec<f64> = (0..=deg).map(|i| (i as f64) + 2.0).collect();
                z[pos] = 0.0;
                z.push(x);
                out.push(case(&format!("c01_poly{}", deg), &z));
                if x > 0.0 {
                    let mut lv = c.clone(); lv.push(x.exp());
                    out.push(case(&format!("c01_log{}", deg), &lv));
                }
            }
        }
    }
    for len in 0..=12usize {
        for pos in 0..len.max(1) {
            for &x in xs.iter() {
                let mut c = vec![0.0; len];
                if len > 0 { c[pos] = 1.0; }
                c.push(x);
                out.push(case("c01_polyn", &c));
                let mut z: Vec<f64> = (0..len).map(|i| (i as f64) + 2.0).collect();
                if len > 0 { z[pos] = 0.0; }
                z.push(x);
                out.push(case("c01_polyn", &z));
            }
        }
    }
    while out.len() < n {
        let deg = rng.below(10) as usize;
        if deg == 9 {
            let len = rng.below(13) as usize;
            let mut c: Vec<f64> = (0..len).map(|_| rng.float()).collect();
            c.push(rng.float());
            out.push(case("c01_polyn", &c));
        } else {
            let mut c: Vec<f64> = (0..=deg).map(|_| rng.float()).collect();
            if rng.below(3) == 0 {
                c.push(rng.pos());
                out.push(case(&format!("c01_log{}", deg), &c));
            } else {
                c.push(rng.float());
                out.push(case(&format!("c01_poly{}", deg), &c));
            }
        }
    }
}
