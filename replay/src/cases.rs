//! Case generators and predicates, one family per property.
use crate::dd::*;
use piecewise_polynomial::*;

#[derive(Clone, Debug)]
pub struct Case {
    pub kind: String,
    pub params: Vec<u64>,
}

pub struct Rng(u64);
impl Rng {
    pub fn new(s: u64) -> Rng { Rng(if s == 0 { 0x1234567 } else { s }) }
    pub fn next(&mut self) -> u64 {
        let mut x = self.0;
        x ^= x << 13; x ^= x >> 7; x ^= x << 17;
        self.0 = x;
        x.wrapping_mul(0x2545F4914F6CDD1D)
    }
    pub fn below(&mut self, n: u64) -> u64 { self.next() % n }
    pub fn unit(&mut self) -> f64 { (self.next() >> 11) as f64 / (1u64 << 53) as f64 }
    /// a finite float of moderate magnitude in one of several styles
    pub fn float(&mut self) -> f64 {
        match self.below(8) {
            0 => 0.0,
            1 => (self.below(19) as f64) - 9.0,
            2 => ((self.below(39) as f64) - 19.0) * 0.5,
            3 => (self.unit() - 0.5) * 8.0,
            4 => { let e = self.below(41) as i32 - 20; (self.unit() - 0.5) * (2.0f64).powi(e) }
            5 => { let e = self.below(13) as i32 - 6; (if self.below(2) == 0 { 1.0 } else { -1.0 }) * (2.0f64).powi(e) }
            6 => ((self.below(2001) as f64) - 1000.0) / 7.0,
            _ => (self.unit() - 0.5) * 2.0,
        }
    }
    pub fn pos(&mut self) -> f64 {
        match self.below(6) {
            0 => 1.0,
            1 => 1.0 + (self.unit() - 0.5) * 1e-6,
            2 => self.unit() * 10.0 + 1e-3,
            3 => (self.unit() * 40.0 - 20.0).exp(),
            4 => (self.below(20) + 1) as f64 * 0.5,
            _ => self.unit() + 0.5,
        }
    }
}

fn b(x: f64) -> u64 { x.to_bits() }
fn f(x: u64) -> f64 { f64::from_bits(x) }
fn case(kind: &str, v: &[f64]) -> Case { Case { kind: kind.to_string(), params: v.iter().map(|x| b(*x)).collect() } }

const U: f64 = 1.1102230246251565e-16; // 2^-53

pub fn run_case_caught(c: &Case) -> Option<String> {
    let c2 = c.clone();
    let prev = std::panic::take_hook();
    std::panic::set_hook(Box::new(|_| {}));
    let r = std::panic::catch_unwind(move || run_case(&c2));
    std::panic::set_hook(prev);
    match r {
        Ok(x) => x,
        Err(e) => {
            let msg = if let Some(s) = e.downcast_ref::<&str>() { s.to_string() } else if let Some(s) = e.downcast_ref::<String>() { s.clone() } else { "panic".to_string() };
            if c.kind.ends_with("_mustpanic") { None } else { Some(format!("PANIC: {}", msg)) }
        }
    }
}

pub fn generate(prop: &str, rng: &mut Rng, n: usize) -> Vec<Case> {
    let mut out = Vec::new();
    match prop {
        "C01" => gen_c01(rng, n, &mut out),
        "C04" | "C05" => gen_c04(rng, n, &mut out),
        "C06" => gen_c06(rng, n, &mut out),
        "C07" => gen_c07(rng, n, &mut out),
        "C09" => gen_c09(rng, n, &mut out),
        "C10" => gen_c10(rng, n, &mut out),
        "C14" => gen_c14(rng, n, &mut out),
        "C08" => gen_c08(rng, n, &mut out),
        "C02" => gen_sel(rng, n, &mut out, &["c02_direct"]),
        "C03" => gen_sel(rng, n, &mut out, &["c03_hist"]),
        "C12" => gen_sel(rng, n, &mut out, &["c12_v"]),
        "C13" => gen_pwops(rng, n, &mut out, &["c13_add", "c13_sub"]),
        "C15" => gen_pwops(rng, n, &mut out, &["c15_ops"]),
        "C11" => gen_pwops(rng, n, &mut out, &["c11_integral"]),
        "C17" => gen_c17(rng, n, &mut out),
        "C16" => { gen_sel(rng, n / 2, &mut out, &["c16_hist_nan", "c16_v_nan", "c02_direct"]); let m = out.len() + n / 2; gen_c17(rng, m, &mut out); }
        _ => {}
    }
    out
}

pub fn run_case(c: &Case) -> Option<String> {
    let p: Vec<f64> = c.params.iter().map(|x| f(*x)).collect();
    let k = c.kind.as_str();
    if let Some(rest) = k.strip_prefix("c01_poly") { return run_c01(rest, &p, false); }
    if let Some(rest) = k.strip_prefix("c01_log") { return run_c01(rest, &p, true); }
    if let Some(rest) = k.strip_prefix("c08_deriv") { return run_c08(rest.parse().ok()?, &p); }
    if k == "c08_piecewise" { return run_c08_pw(&p); }
    if let Some(rest) = k.strip_prefix("c07_indef") { return run_c07(rest.parse().ok()?, &p, false); }
    if let Some(rest) = k.strip_prefix("c07_integral") { return run_c07(rest.parse().ok()?, &p, true); }
    if let Some(rest) = k.strip_prefix("c09_log") { return run_c09(rest.parse().ok()?, &p); }
    if k == "c10_quartic" { return run_c10(&p); }
    if let Some(rest) = k.strip_prefix("c14_poly") { return run_c14_poly(rest.parse().ok()?, &p); }
    if k == "c14_quartic" { return run_c14_quartic(&p); }
    if k == "c14_polyn" { return run_c14_polyn(&p); }
    if k == "c04_spline" { return run_c04(&p); }
    if k == "c04_struct" { return run_c04_struct(&p); }
    if k == "c06_linear" { return run_c06(&p); }
    if k == "c13_add" || k == "c13_sub" || k == "c15_ops" || k == "c11_integral" { return run_pwops(k, &p); }
    if k == "c17_approx" { return run_c17(&p); }
    if k == "c02_direct" || k == "c03_hist" || k == "c12_v" || k == "c16_hist_nan" || k == "c16_v_nan" { return run_sel(k, &p); }
    Some(format!("unknown case kind {}", k))
}

// ------------------------------------------------------------------------------------------ C01
fn eval_fixed(deg: usize, c: &[f64], x: f64, log: bool) -> f64 {
    macro_rules! go { ($t:ident, $n:expr) => {{ let mut a = [0.0f64; $n]; a.copy_from_slice(&c[..$n]); if log { Log($t(a)).evaluate(x) } else { $t(a).evaluate(x) } }}; }
    match deg {
        0 => if log { Log(Poly0(c[0])).evaluate(x) } else { Poly0(c[0]).evaluate(x) },
        1 => go!(Poly1, 2), 2 => go!(Poly2, 3), 3 => go!(Poly3, 4), 4 => go!(Poly4, 5),
        5 => go!(Poly5, 6), 6 => go!(Poly6, 7), 7 => go!(Poly7, 8), 8 => go!(Poly8, 9),
        _ => unreachable!(),
    }
}

fn run_c01(which: &str, p: &[f64], log: bool) -> Option<String> {
    let (coeffs, x) = p.split_at(p.len() - 1);
    let x = x[0];
    let got = if which == "n" {
        if log { Log(PolyN(coeffs.to_vec())).evaluate(x) } else { PolyN(coeffs.to_vec()).evaluate(x) }
    } else {
        let deg: usize = which.parse().ok()?;
        eval_fixed(deg, coeffs, x, log)
    };
    let n = coeffs.len() as f64;
    let (want, mag, extra) = if log {
        let l = DD::from(x).ln();
        let lf = l.to_f64();
        let (w, m) = polyval_dd(coeffs, lf);
        // propagate the DD tail of ln and one ulp of ln through |p'(L)|
        let mut dmag = 0.0;
        for (i, ci) in coeffs.iter().enumerate().skip(1) { dmag += (i as f64) * ci.abs() * lf.abs().powi(i as i32 - 1); }
        // recompute at the DD point: p(l) ~ p(lf) + p'(lf) * l.tail
        let mut d = 0.0;
        for (i, ci) in coeffs.iter().enumerate().skip(1) { d += (i as f64) * ci * lf.powi(i as i32 - 1); }
        let w = w.add(DD::from(d * (l.to_f64() - lf + (l.1 - (l.to_f64() - l.0)))));
        (w, m, dmag * lf.abs().max(f64::MIN_POSITIVE) * 2.0 * U * 2.0)
    } else {
        let (w, m) = polyval_dd(coeffs, x);
        (w, m, 0.0)
    };
    let err = DD::from(got).sub(want).abs().to_f64();
    let bound = 4.0 * (n + 2.0) * U * mag + extra + mag * 1e-30;
    if !(err <= bound) {
        return Some(format!("evaluate returned {:e}, sum c_i x^i = {:e}, |diff| {:e} > bound {:e}", got, want.to_f64(), err, bound));
    }
    None
}

fn gen_c01(rng: &mut Rng, n: usize, out: &mut Vec<Case>) {
    let xs = [2.0, -2.0, 3.0, 0.5, -1.0, 1.0, 0.0, 10.0, -0.25, 1e-9, -1e-12, 1e-5, 1e6, -3e4];
    // deterministic battery: one-hot and zero-at-position vectors for every fixed degree
    for deg in 0..=8usize {
        for pos in 0..=deg {
            for &x in xs.iter() {
                let mut c = vec![0.0; deg + 1];
                c[pos] = 1.0;
                let mut v = c.clone(); v.push(x);
                out.push(case(&format!("c01_poly{}", deg), &v));
                let mut z: Vec<f64> = (0..=deg).map(|i| (i as f64) + 2.0).collect();
                z[pos] = 0.0;
                z.push(x);
                out.push(case(&format!("c01_poly{}", deg), &z));
                if x > 0.0 && x < 700.0 {
                    let mut lv = c.clone(); lv.push(x.exp());
                    out.push(case(&format!("c01_log{}", deg), &lv));
                }
                if pos <= 1 {
                    // extreme positive arguments of the Log wrapper: subnormal, smallest normal, huge, next to 1
                    for v in [5e-324, 1e-310, 2.2250738585072014e-308, 1e-300, 1e300, 1.0 + 1e-9, 1.0 - 1e-12, 1.0000000149011612] {
                        let mut lv = c.clone(); lv.push(v);
                        out.push(case(&format!("c01_log{}", deg), &lv));
                    }
                }
            }
        }
    }
    for len in 0..=12usize {
        for pos in 0..len.max(1) {
            for &x in xs.iter() {
                let mut c = vec![0.0; len];
                if len > 0 { c[pos] = 1.0; }
                c.push(x);
                out.push(case("c01_polyn", &c));
                let mut z: Vec<f64> = (0..len).map(|i| (i as f64) + 2.0).collect();
                if len > 0 { z[pos] = 0.0; }
                z.push(x);
                out.push(case("c01_polyn", &z));
            }
        }
    }
    while out.len() < n {
        let deg = rng.below(10) as usize;
        if deg == 9 {
            let len = rng.below(13) as usize;
            let mut c: Vec<f64> = (0..len).map(|_| rng.float()).collect();
            c.push(rng.float());
            out.push(case("c01_polyn", &c));
        } else {
            let mut c: Vec<f64> = (0..=deg).map(|_| rng.float()).collect();
            if rng.below(3) == 0 {
                c.push(rng.pos());
                out.push(case(&format!("c01_log{}", deg), &c));
            } else {
                c.push(rng.float());
                out.push(case(&format!("c01_poly{}", deg), &c));
            }
        }
    }
}

// ------------------------------------------------------------------------------------- C07 / C08
impl Rng {
    /// finite floats including extreme magnitudes
    pub fn wide(&mut self) -> f64 {
        match self.below(10) {
            0 => f64::MAX / (1.0 + self.below(16) as f64 * 0.5),
            1 => -f64::MAX / (1.0 + self.below(16) as f64 * 0.5),
            2 => f64::MIN_POSITIVE * (1.0 + self.below(9) as f64),
            3 => 5e-324 * (1 + self.below(7)) as f64,
            4 => -0.0,
            _ => self.float(),
        }
    }
    pub fn odd(&mut self) -> f64 {
        // values whose quotients/products by small integers are inexact
        let base = [5.0, 7.0, 10.0, 14.0, 25.0, 0.1, 0.3, 1.0 / 3.0, 2.0 / 3.0, 1e-3, 12345.678, -7.0, -0.7];
        base[self.below(base.len() as u64) as usize] * (if self.below(4) == 0 { (2.0f64).powi(self.below(40) as i32 - 20) } else { 1.0 })
    }
}

macro_rules! with_poly {
    ($deg:expr, $c:expr, |$p:ident| $body:expr) => {{
        macro_rules! arr { ($n:expr) => {{ let mut a = [0.0f64; $n]; a.copy_from_slice(&$c[..$n]); a }}; }
        match $deg {
            1 => { let $p = Poly1(arr!(2)); $body }
            2 => { let $p = Poly2(arr!(3)); $body }
            3 => { let $p = Poly3(arr!(4)); $body }
            4 => { let $p = Poly4(arr!(5)); $body }
            5 => { let $p = Poly5(arr!(6)); $body }
            6 => { let $p = Poly6(arr!(7)); $body }
            7 => { let $p = Poly7(arr!(8)); $body }
            _ => unreachable!(),
        }
    }};
}

fn deriv_coeffs(deg: usize, c: &[f64]) -> Vec<f64> {
    macro_rules! arr { ($n:expr) => {{ let mut a = [0.0f64; $n]; a.copy_from_slice(&c[..$n]); a }}; }
    match deg {
        0 => vec![Poly0(c[0]).derivative().0],
        1 => vec![Poly1(arr!(2)).derivative().0],
        2 => Poly2(arr!(3)).derivative().0.to_vec(),
        3 => Poly3(arr!(4)).derivative().0.to_vec(),
        4 => Poly4(arr!(5)).derivative().0.to_vec(),
        5 => Poly5(arr!(6)).derivative().0.to_vec(),
        6 => Poly6(arr!(7)).derivative().0.to_vec(),
        7 => Poly7(arr!(8)).derivative().0.to_vec(),
        8 => Poly8(arr!(9)).derivative().0.to_vec(),
        _ => unreachable!(),
    }
}

fn run_c08(deg: usize, c: &[f64]) -> Option<String> {
    let d = deriv_coeffs(deg, c);
    if deg == 0 {
        if d.len() != 1 || d[0] != 0.0 { return Some(format!("derivative of a constant is {:?}, expected the zero constant", d)); }
        return None;
    }
    if d.len() != deg { return Some(format!("derivative has {} coefficients, expected {}", d.len(), deg)); }
    for i in 0..deg {
        let want = if i == 0 { c[1] } else { (i as f64 + 1.0) * c[i + 1] };
        if d[i].to_bits() != want.to_bits() && !(d[i] == 0.0 && want == 0.0) {
            return Some(format!("derivative coefficient {} is {:e}, (i+1)*c_(i+1) correctly rounded is {:e}", i, d[i], want));
        }
    }
    None
}

fn run_c08_pw(p: &[f64]) -> Option<String> {
    // params: n, then n * (end, c0..c3)
    let n = p[0] as usize;
    let mut segs = Vec::new();
    for i in 0..n {
        let o = 1 + i * 5;
        segs.push(Segment { end: p[o], poly: Poly3([p[o + 1], p[o + 2], p[o + 3], p[o + 4]]) });
    }
    let pw = Piecewise { segments: segs.clone() };
    let d = pw.derivative();
    if d.segments.len() != n { return Some(format!("derivative has {} pieces, the function has {}", d.segments.len(), n)); }
    for i in 0..n {
        if d.segments[i].end.to_bits() != segs[i].end.to_bits() { return Some(format!("breakpoint {} changed from {:e} to {:e}", i, segs[i].end, d.segments[i].end)); }
        let want = segs[i].poly.derivative();
        if d.segments[i].poly != want && !(want.0.iter().any(|x| x.is_nan())) { return Some(format!("piece {} is {:?}, derivative of the piece is {:?}", i, d.segments[i].poly, want)); }
        let sd = segs[i].derivative();
        if sd.end.to_bits() != segs[i].end.to_bits() || sd.poly != want { return Some(format!("Segment::derivative of piece {} is wrong", i)); }
    }
    None
}

fn gen_c08(rng: &mut Rng, n: usize, out: &mut Vec<Case>) {
    for deg in 0..=8usize {
        for pos in 0..=deg {
            let mut c = vec![0.0; deg + 1]; c[pos] = 1.0; out.push(case(&format!("c08_deriv{}", deg), &c));
            let mut c: Vec<f64> = (0..=deg).map(|i| 3.0 + i as f64 * 1.25).collect(); c[pos] = 0.7; out.push(case(&format!("c08_deriv{}", deg), &c));
            let mut c = vec![1.0; deg + 1]; c[pos] = f64::MAX / (pos as f64 + 0.5).max(1.0); out.push(case(&format!("c08_deriv{}", deg), &c));
            let mut c = vec![1.0; deg + 1]; c[pos] = f64::MAX / (pos as f64 + 1.5); out.push(case(&format!("c08_deriv{}", deg), &c));
        }
    }
    // piecewise: equal neighbouring derivatives, duplicate ends, single piece
    let pieces = [[1.0, 2.0, 3.0, 4.0], [5.0, 2.0, 3.0, 4.0], [5.0, 2.5, 3.0, 4.0], [0.0, 0.0, 0.0, 0.0]];
    for ends in [vec![1.0], vec![1.0, 2.0], vec![1.0, 1.0, 2.0], vec![-1.0, 0.0, 0.0, 3.0], vec![1.0, 2.0, 3.0, 3.0]] {
        let mut v = vec![ends.len() as f64];
        for (i, e) in ends.iter().enumerate() { v.push(*e); v.extend_from_slice(&pieces[i % 2]); }
        out.push(case("c08_piecewise", &v));
        let mut v = vec![ends.len() as f64];
        for (i, e) in ends.iter().enumerate() { v.push(*e); v.extend_from_slice(&pieces[(i + 1) % 4]); }
        out.push(case("c08_piecewise", &v));
    }
    while out.len() < n {
        if rng.below(5) == 0 {
            let k = 1 + rng.below(5) as usize;
            let mut ends: Vec<f64> = (0..k).map(|_| (rng.below(7) as f64) - 3.0).collect();
            ends.sort_by(|a, b| a.partial_cmp(b).unwrap());
            let mut v = vec![k as f64];
            for e in ends { v.push(e); for j in 0..4 { v.push(if j == 0 { rng.float() } else { (rng.below(3) as f64) }); } }
            out.push(case("c08_piecewise", &v));
        } else {
            let deg = rng.below(9) as usize;
            let c: Vec<f64> = (0..=deg).map(|_| match rng.below(3) { 0 => rng.wide(), 1 => rng.odd(), _ => rng.float() }).collect();
            out.push(case(&format!("c08_deriv{}", deg), &c));
        }
    }
}

fn indef_coeffs(deg: usize, c: &[f64], knot: Option<Knot>) -> Vec<f64> {
    if deg == 0 {
        let p = Poly0(c[0]);
        return match knot { None => p.indefinite().0.to_vec(), Some(k) => p.integral(k).0.to_vec() };
    }
    with_poly!(deg, c, |p| match knot { None => p.indefinite().0.to_vec(), Some(k) => p.integral(k).0.to_vec() })
}

fn run_c07(deg: usize, p: &[f64], with_knot: bool) -> Option<String> {
    let (c, knot) = if with_knot { (&p[..deg + 1], Some(Knot { x: p[deg + 1], y: p[deg + 2] })) } else { (&p[..], None) };
    let r = indef_coeffs(deg, c, knot);
    if r.len() != deg + 2 { return Some(format!("result has {} coefficients, expected {}", r.len(), deg + 2)); }
    for i in 0..=deg {
        let want = if i == 0 { c[0] } else { c[i] / (i as f64 + 1.0) };
        if r[i + 1].to_bits() != want.to_bits() && !(r[i + 1] == 0.0 && want == 0.0) {
            return Some(format!("coefficient {} of the integral is {:e}, c_{}/{} correctly rounded is {:e}", i + 1, r[i + 1], i, i + 1, want));
        }
    }
    match knot {
        None => { if r[0] != 0.0 { return Some(format!("indefinite() has constant term {:e}, expected 0", r[0])); } }
        Some(k) => {
            let (v, mag) = polyval_dd(&r, k.x);
            if !(v.to_f64().is_finite() && mag.is_finite()) { return None; } // overflow is outside the property
            let err = v.sub(DD::from(k.y)).abs().to_f64();
            let bound = 8.0 * (deg as f64 + 4.0) * U * (mag + k.y.abs()) + f64::MIN_POSITIVE;
            if !(err <= bound) { return Some(format!("F(knot.x) = {:e} but knot.y = {:e} (|diff| {:e} > rounding bound {:e})", v.to_f64(), k.y, err, bound)); }
        }
    }
    None
}

fn gen_c07(rng: &mut Rng, n: usize, out: &mut Vec<Case>) {
    let knots = [(0.0, 1.0), (0.0, 0.0), (2.0, 5.0), (-1.5, 0.25), (3.0, 1e-17), (1.0, -1e-18), (0.5, 1e-300), (1e-9, 3.0), (1e-17, 1.0), (-1e-18, 0.0), (-2.0, 3.0), (-0.5, -4.0)];
    for deg in 0..=7usize {
        for pos in 0..=deg {
            let mut c = vec![0.0; deg + 1]; c[pos] = 7.0; out.push(case(&format!("c07_indef{}", deg), &c));
            let mut c: Vec<f64> = (0..=deg).map(|i| 5.0 + i as f64).collect(); c[pos] = 0.7; out.push(case(&format!("c07_indef{}", deg), &c));
            let mut c = vec![1.0; deg + 1]; c[pos] = 3e-308; out.push(case(&format!("c07_indef{}", deg), &c));
            let mut c = vec![1.0; deg + 1]; c[pos] = 5e-324 * 7.0; out.push(case(&format!("c07_indef{}", deg), &c));
            for &(x, y) in knots.iter() {
                let mut c = vec![0.0; deg + 1]; c[pos] = if pos % 2 == 0 { 7.0 } else { 0.0 };
                c.push(x); c.push(y);
                out.push(case(&format!("c07_integral{}", deg), &c));
                let mut c: Vec<f64> = (0..=deg).map(|i| 1.0 + i as f64).collect(); c.push(x); c.push(y);
                out.push(case(&format!("c07_integral{}", deg), &c));
                if pos == 0 { let mut c = vec![0.0; deg + 1]; c[0] = 3e20; c.push(x); c.push(y); out.push(case(&format!("c07_integral{}", deg), &c)); }
            }
        }
    }
    while out.len() < n {
        let deg = rng.below(8) as usize;
        let mut c: Vec<f64> = (0..=deg).map(|_| match rng.below(3) { 0 => rng.odd(), _ => rng.float() }).collect();
        if rng.below(2) == 0 {
            out.push(case(&format!("c07_indef{}", deg), &c));
        } else {
            c.push(if rng.below(4) == 0 { 0.0 } else { rng.float() });
            c.push(match rng.below(4) { 0 => 0.0, 1 => rng.float() * 1e-17, _ => rng.float() });
            out.push(case(&format!("c07_integral{}", deg), &c));
        }
    }
}

// ------------------------------------------------------------------------------------- C09 / C10
/// reference antiderivative coefficients q of p(ln t): q_K = p_K, q_i = p_i - (i+1) q_{i+1}   (in DD)
fn ref_q(p: &[f64]) -> Vec<DD> {
    let n = p.len();
    let mut q = vec![DD::from(0.0); n];
    q[n - 1] = DD::from(p[n - 1]);
    for i in (0..n - 1).rev() {
        q[i] = DD::from(p[i]).sub(q[i + 1].mul(DD::from(i as f64 + 1.0)));
    }
    q
}
/// G(t) = t * q(ln t) and a magnitude for the tolerance
fn ref_g(q: &[DD], t: f64) -> (DD, f64) {
    let l = DD::from(t).ln();
    let mut acc = DD::from(0.0);
    let mut mag = 0.0f64;
    for qi in q.iter().rev() {
        acc = acc.mul(l).add(*qi);
        mag = mag * l.to_f64().abs() + qi.to_f64().abs();
    }
    (acc.mul(DD::from(t)), mag * t)
}
fn log_integral(deg: usize, c: &[f64], knot: Knot) -> Box<dyn Fn(f64) -> f64> {
    macro_rules! arr { ($n:expr) => {{ let mut a = [0.0f64; $n]; a.copy_from_slice(&c[..$n]); a }}; }
    macro_rules! go { ($p:expr) => {{ let f = Log($p).integral(knot); Box::new(move |v| f.evaluate(v)) }}; }
    match deg {
        0 => go!(Poly0(c[0])), 1 => go!(Poly1(arr!(2))), 2 => go!(Poly2(arr!(3))), 3 => go!(Poly3(arr!(4))),
        4 => go!(Poly4(arr!(5))), 5 => go!(Poly5(arr!(6))), 6 => go!(Poly6(arr!(7))), 7 => go!(Poly7(arr!(8))),
        8 => go!(Poly8(arr!(9))), _ => unreachable!(),
    }
}
fn log_indefinite(deg: usize, c: &[f64]) -> Box<dyn Fn(f64) -> f64> {
    macro_rules! arr { ($n:expr) => {{ let mut a = [0.0f64; $n]; a.copy_from_slice(&c[..$n]); a }}; }
    macro_rules! go { ($p:expr) => {{ let f = Log($p).indefinite(); Box::new(move |v| f.evaluate(v)) }}; }
    match deg {
        0 => go!(Poly0(c[0])), 1 => go!(Poly1(arr!(2))), 2 => go!(Poly2(arr!(3))), 3 => go!(Poly3(arr!(4))),
        4 => go!(Poly4(arr!(5))), 5 => go!(Poly5(arr!(6))), 6 => go!(Poly6(arr!(7))), 7 => go!(Poly7(arr!(8))),
        8 => go!(Poly8(arr!(9))), _ => unreachable!(),
    }
}
fn run_c09(deg: usize, p: &[f64]) -> Option<String> {
    // params: c[0..=deg], knot.x, knot.y, a, b
    let c = &p[..deg + 1];
    let (kx, ky, a, b) = (p[deg + 1], p[deg + 2], p[deg + 3], p[deg + 4]);
    let f = log_integral(deg, c, Knot { x: kx, y: ky });
    let g = log_indefinite(deg, c);
    let q = ref_q(c);
    let (ga, ma) = ref_g(&q, a);
    let (gb, mb) = ref_g(&q, b);
    let (gk, mk) = ref_g(&q, kx);
    // the quartic representation carries the extra term u*v*x^5*R(x) (about |u|): its magnitude enters the rounding bound (C10)
    let extra = if deg == 4 {
        let mut a4 = [0.0f64; 5]; a4.copy_from_slice(&c[..5]);
        let q = Log(Poly4(a4)).indefinite();
        let m = |v: f64| { let x = -v.ln(); let mut s = 0.0; for j in 0..4 { s += q.coeffs[j].abs() * x.abs().powi(j as i32 + 1) * v; } s + q.u.abs() * 2.0 };
        m(a) + m(b) + m(kx)
    } else { 0.0 };
    let tol = |m: f64| 512.0 * U * (m + extra) + 1e-300;
    // F(knot.x) = knot.y
    let fk = f(kx);
    if !((fk - ky).abs() <= tol(mk + ky.abs())) { return Some(format!("F(knot.x) = {:e}, knot.y = {:e}", fk, ky)); }
    // F(b) - F(a) = integral of p(ln t) over [a,b]
    let want = gb.sub(ga);
    let got = DD::from(f(b)).sub(DD::from(f(a)));
    let err = got.sub(want).abs().to_f64();
    if !(err <= tol(ma + mb + 2.0 * (mk + ky.abs()))) {
        return Some(format!("F(b)-F(a) = {:e}, integral of p(ln t) over [{:e},{:e}] = {:e} (|diff| {:e})", got.to_f64(), a, b, want.to_f64(), err));
    }
    let got2 = DD::from(g(b)).sub(DD::from(g(a)));
    let err2 = got2.sub(want).abs().to_f64();
    if !(err2 <= tol(ma + mb)) {
        return Some(format!("indefinite(): G(b)-G(a) = {:e}, integral = {:e} (|diff| {:e})", got2.to_f64(), want.to_f64(), err2));
    }
    None
}
fn gen_c09(rng: &mut Rng, n: usize, out: &mut Vec<Case>) {
    let pts = [(1.0, 1.0, 1.0, 3.0), (1.0, -2.0, 0.5, 1.0), (1.0, 0.0, 1.0, 3.0), (2.5, -1.0, 0.5, 2.0), (4.0, -3.0, 1.0, 4.0), (0.5, 2.0, 0.25, 0.75), (1.0, 2.0, 1e-17, 2e-17), (3.0, 1.0, 1e-3, 1e3)];
    for deg in 0..=8usize {
        for pos in 0..=deg {
            for &(kx, ky, a, b) in pts.iter() {
                let mut c = vec![0.0; deg + 1]; c[pos] = 1.0; c.extend_from_slice(&[kx, ky, a, b]);
                out.push(case(&format!("c09_log{}", deg), &c));
                let mut c: Vec<f64> = (0..=deg).map(|i| 1.0 + 0.5 * i as f64).collect(); c.extend_from_slice(&[kx, ky, a, b]);
                out.push(case(&format!("c09_log{}", deg), &c));
                let mut c: Vec<f64> = (0..=deg).map(|i| (1.0 + 0.5 * i as f64) * 1e-19).collect(); c.extend_from_slice(&[kx, ky * 1e-19, a, b]);
                out.push(case(&format!("c09_log{}", deg), &c));
            }
        }
    }
    while out.len() < n {
        let deg = rng.below(9) as usize;
        let mut c: Vec<f64> = (0..=deg).map(|_| (rng.below(41) as f64 - 20.0) * 0.25).collect();
        let kx = rng.pos().min(1e6).max(1e-6);
        c.push(kx); c.push(rng.float()); c.push(rng.pos().min(1e6).max(1e-6)); c.push(rng.pos().min(1e6).max(1e-6));
        out.push(case(&format!("c09_log{}", deg), &c));
    }
}

/// R(x) = sum_{m>=0} x^m/(m+5)! in DD
fn ref_tail(x: DD) -> DD {
    if x.to_f64().abs() < 3.0 {
        let mut term = DD::from(1.0).div(DD::from(120.0));
        let mut sum = term;
        for m in 1..60 {
            term = term.mul(x).div(DD::from(m as f64 + 5.0));
            sum = sum.add(term);
        }
        sum
    } else {
        let mut head = DD::from(1.0);
        let mut t = DD::from(1.0);
        for j in 1..5 { t = t.mul(x).div(DD::from(j as f64)); head = head.add(t); }
        let x5 = x.mul(x).mul(x).mul(x).mul(x);
        DD::exp(x).sub(head).div(x5)
    }
}
fn run_c10(p: &[f64]) -> Option<String> {
    // params: k, c1..c4, u, v
    let f = IntOfLogPoly4 { k: p[0], coeffs: [p[1], p[2], p[3], p[4]], u: p[5] };
    let v = p[6];
    let got = f.evaluate(v);
    let x = DD::from(v).ln().neg();
    let mut xp = DD::from(1.0);
    let mut want = DD::from(p[0]);
    let mut mag = p[0].abs();
    for j in 0..4 {
        xp = xp.mul(x);
        let t = DD::from(p[1 + j]).mul(xp).mul(DD::from(v));
        want = want.add(t);
        mag += t.to_f64().abs();
    }
    xp = xp.mul(x);
    let t = DD::from(p[5]).mul(DD::from(v)).mul(xp).mul(ref_tail(x));
    want = want.add(t);
    mag += t.to_f64().abs();
    if !mag.is_finite() { return None; }
    let err = DD::from(got).sub(want).abs().to_f64();
    if !(err <= 1e-12 * mag + 1e-300) {
        return Some(format!("evaluate({:e}) = {:e}, k + v*sum c_j x^j + u*v*x^5*R(x) = {:e} (|diff| {:e} > 1e-12 * {:e})", v, got, want.to_f64(), err, mag));
    }
    if v == 1.0 && got.to_bits() != p[0].to_bits() && !(got == 0.0 && p[0] == 0.0) { return Some(format!("value at v=1 is {:e}, expected exactly k = {:e}", got, p[0])); }
    None
}
fn gen_c10(rng: &mut Rng, n: usize, out: &mut Vec<Case>) {
    let coefs = [[0.0, 1.0, 0.0, 0.0, 0.0, 0.0], [0.0, 0.0, 0.0, 0.0, 0.0, 1.0], [3.0, 2.0, 3.0, 4.0, 5.0, 6.0], [1.0, -2.5, 3.5, -4.5, 5.5, -6.5], [0.0, 0.0, 0.0, 0.0, 1.0, 24.0]];
    let mut vs: Vec<f64> = vec![1.0, 7.0, 0.5, 2.0, 1e-8, 1e8, 1e-300, 1e300, 1e-304, 1e-305, 1e-306, 1e305, (1.71f64).exp(), (-1.72f64).exp(), (1.72f64).exp(), (-1.71f64).exp()];
    // floats next to 1 and next to the two switch points, and a sweep over x in [-40, 40]
    for k in 1..40u64 { vs.push(f64::from_bits(1.0f64.to_bits() + k * k)); vs.push(f64::from_bits(1.0f64.to_bits() - k * k)); }
    for &sw in [1.71f64, -1.72f64].iter() { let b = sw.exp(); for k in 0..200i64 { vs.push(f64::from_bits((b.to_bits() as i64 + (k - 100) * 37) as u64)); } }
    for i in 0..=1600 { vs.push((-(i as f64 * 0.05 - 40.0)).exp()); }
    for i in 1..40 { vs.push(1.0 + (i as f64) * 1e-6); vs.push(1.0 - (i as f64) * 1e-7); vs.push(1.0 + (2.0f64).powi(-i)); }
    for c in coefs.iter() { for v in vs.iter() { let mut p = c.to_vec(); p.push(*v); out.push(case("c10_quartic", &p)); } }
    while out.len() < n {
        let mut p: Vec<f64> = (0..6).map(|_| rng.float()).collect();
        p.push(match rng.below(3) { 0 => (rng.unit() * 80.0 - 40.0).exp(), 1 => 1.0 + (rng.unit() - 0.5) * (10.0f64).powi(-(rng.below(16) as i32)), _ => rng.pos() });
        out.push(case("c10_quartic", &p));
    }
}

// ------------------------------------------------------------------------------------------- C14
fn lanes_eq(name: &str, got: &[f64], want: &[f64]) -> Option<String> {
    if got.len() != want.len() { return Some(format!("{}: {} numbers, expected {}", name, got.len(), want.len())); }
    for i in 0..got.len() {
        if got[i].to_bits() != want[i].to_bits() && !(got[i].is_nan() && want[i].is_nan()) {
            return Some(format!("{}: number {} is {:e}, expected the correctly rounded {:e}", name, i, got[i], want[i]));
        }
    }
    None
}
macro_rules! c14_fixed {
    ($t:ident, $n:expr, $a:expr, $b:expr, $s:expr) => {{
        let mut ca = [0.0f64; $n]; ca.copy_from_slice(&$a[..$n]);
        let mut cb = [0.0f64; $n]; cb.copy_from_slice(&$b[..$n]);
        let s: f64 = $s;
        let mul: Vec<f64> = ca.iter().map(|c| c * s).collect();
        let neg: Vec<f64> = ca.iter().map(|c| -c).collect();
        let add: Vec<f64> = ca.iter().zip(cb.iter()).map(|(x, y)| x + y).collect();
        let mut r = None;
        r = r.or(lanes_eq(concat!(stringify!($t), " * s"), &($t(ca) * s).0, &mul));
        r = r.or(lanes_eq(concat!("-", stringify!($t)), &(-$t(ca)).0, &neg));
        r = r.or(lanes_eq(concat!(stringify!($t), " + ", stringify!($t)), &($t(ca) + $t(cb)).0, &add));
        let mut m = $t(ca); m *= s;
        r = r.or(lanes_eq(concat!(stringify!($t), " *= s"), &m.0, &mul));
        let mut t = $t(ca); t.translate(s);
        let mut tr = ca.to_vec(); tr[0] = ca[0] + s;
        r = r.or(lanes_eq(concat!(stringify!($t), "::translate"), &t.0, &tr));
        // Log wrapper
        r = r.or(lanes_eq(concat!("Log<", stringify!($t), "> * s"), &((Log($t(ca)) * s).0).0, &mul));
        let mut lm = Log($t(ca)); lm *= s;
        r = r.or(lanes_eq(concat!("Log<", stringify!($t), "> *= s"), &(lm.0).0, &mul));
        let mut lt = Log($t(ca)); lt.translate(s);
        r = r.or(lanes_eq(concat!("Log<", stringify!($t), ">::translate"), &(lt.0).0, &tr));
        // IntOfLog wrapper (k = cb[0])
        let k = cb[0];
        let f = IntOfLog { k, poly: $t(ca) };
        let g = IntOfLog { k: ca[0], poly: $t(cb) };
        let fm = f * s;
        r = r.or(lanes_eq("IntOfLog * s (k)", &[fm.k], &[s * k])).or(lanes_eq("IntOfLog * s (poly)", &fm.poly.0, &mul));
        let mut fa = f; fa *= s;
        r = r.or(lanes_eq("IntOfLog *= s (k)", &[fa.k], &[k * s])).or(lanes_eq("IntOfLog *= s (poly)", &fa.poly.0, &mul));
        let fneg = -f;
        r = r.or(lanes_eq("-IntOfLog (k)", &[fneg.k], &[-k])).or(lanes_eq("-IntOfLog (poly)", &fneg.poly.0, &neg));
        let fadd = f + g;
        r = r.or(lanes_eq("IntOfLog + IntOfLog (k)", &[fadd.k], &[k + ca[0]])).or(lanes_eq("IntOfLog + IntOfLog (poly)", &fadd.poly.0, &add));
        let mut ft = f; ft.translate(s);
        r = r.or(lanes_eq("IntOfLog::translate (k)", &[ft.k], &[k + s])).or(lanes_eq("IntOfLog::translate (poly)", &ft.poly.0, &ca));
        r
    }};
}
fn run_c14_poly(deg: usize, p: &[f64]) -> Option<String> {
    let n = deg + 1;
    let (a, rest) = p.split_at(n);
    let (b, rest) = rest.split_at(n);
    let s = rest[0];
    match deg {
        0 => {
            let (ca, cb) = (a[0], b[0]);
            let mut r = None;
            r = r.or(lanes_eq("Poly0 * s", &[(Poly0(ca) * s).0], &[ca * s]));
            r = r.or(lanes_eq("-Poly0", &[(-Poly0(ca)).0], &[-ca]));
            r = r.or(lanes_eq("Poly0 + Poly0", &[(Poly0(ca) + Poly0(cb)).0], &[ca + cb]));
            let mut m = Poly0(ca); m *= s;
            r = r.or(lanes_eq("Poly0 *= s", &[m.0], &[ca * s]));
            let mut t = Poly0(ca); t.translate(s);
            r = r.or(lanes_eq("Poly0::translate", &[t.0], &[ca + s]));
            let mut lm = Log(Poly0(ca)); lm *= s;
            r = r.or(lanes_eq("Log<Poly0> *= s", &[(lm.0).0], &[ca * s]));
            r = r.or(lanes_eq("Log<Poly0> * s", &[((Log(Poly0(ca)) * s).0).0], &[ca * s]));
            let f = IntOfLog { k: cb, poly: Poly0(ca) };
            let fm = f * s;
            r = r.or(lanes_eq("IntOfLog<Poly0> * s", &[fm.k, fm.poly.0], &[s * cb, ca * s]));
            let mut fa = f; fa *= s;
            r = r.or(lanes_eq("IntOfLog<Poly0> *= s", &[fa.k, fa.poly.0], &[cb * s, ca * s]));
            let mut ft = f; ft.translate(s);
            r = r.or(lanes_eq("IntOfLog<Poly0>::translate", &[ft.k, ft.poly.0], &[cb + s, ca]));
            r
        }
        1 => c14_fixed!(Poly1, 2, a, b, s), 2 => c14_fixed!(Poly2, 3, a, b, s), 3 => c14_fixed!(Poly3, 4, a, b, s),
        4 => c14_fixed!(Poly4, 5, a, b, s), 5 => c14_fixed!(Poly5, 6, a, b, s), 6 => c14_fixed!(Poly6, 7, a, b, s),
        7 => c14_fixed!(Poly7, 8, a, b, s), 8 => c14_fixed!(Poly8, 9, a, b, s),
        _ => unreachable!(),
    }
}
fn q4(p: &[f64]) -> IntOfLogPoly4 { IntOfLogPoly4 { k: p[0], coeffs: [p[1], p[2], p[3], p[4]], u: p[5] } }
fn q4v(f: &IntOfLogPoly4) -> Vec<f64> { vec![f.k, f.coeffs[0], f.coeffs[1], f.coeffs[2], f.coeffs[3], f.u] }
fn run_c14_quartic(p: &[f64]) -> Option<String> {
    let (a, b, s) = (&p[0..6], &p[6..12], p[12]);
    let (fa, fb) = (q4(a), q4(b));
    let add: Vec<f64> = a.iter().zip(b.iter()).map(|(x, y)| x + y).collect();
    let sub: Vec<f64> = a.iter().zip(b.iter()).map(|(x, y)| x - y).collect();
    let mul: Vec<f64> = a.iter().map(|x| x * s).collect();
    let neg: Vec<f64> = a.iter().map(|x| -x).collect();
    let mut r = None;
    r = r.or(lanes_eq("IntOfLogPoly4 + IntOfLogPoly4", &q4v(&(fa + fb)), &add));
    r = r.or(lanes_eq("&IntOfLogPoly4 + &IntOfLogPoly4", &q4v(&(&fa + &fb)), &add));
    r = r.or(lanes_eq("IntOfLogPoly4 - IntOfLogPoly4", &q4v(&(fa - fb)), &sub));
    r = r.or(lanes_eq("&IntOfLogPoly4 - &IntOfLogPoly4", &q4v(&(&fa - &fb)), &sub));
    r = r.or(lanes_eq("IntOfLogPoly4 * s", &q4v(&(fa * s)), &mul));
    r = r.or(lanes_eq("-IntOfLogPoly4", &q4v(&(-fa)), &neg));
    let mut t = fa; t.translate(s);
    let mut tr = a.to_vec(); tr[0] = a[0] + s;
    r = r.or(lanes_eq("IntOfLogPoly4::translate", &q4v(&t), &tr));
    r
}
fn run_c14_polyn(p: &[f64]) -> Option<String> {
    let (c, v) = p.split_at(p.len() - 1);
    let mut q = PolyN(c.to_vec());
    q.translate(v[0]);
    let mut want = c.to_vec();
    if want.is_empty() { want.push(v[0]); } else { want[0] = c[0] + v[0]; }
    lanes_eq("PolyN::translate", &q.0, &want)
}
fn gen_c14(rng: &mut Rng, n: usize, out: &mut Vec<Case>) {
    let scalars = [0.0, -0.0, 1.0, -1.0, 2.0, 3.0, 0.1, 1e300, 5e-324, -7.25, 1.0 / 3.0];
    for deg in 0..=8usize {
        for &s in scalars.iter() {
            let a: Vec<f64> = (0..=deg).map(|i| 0.7 + i as f64 * 1.3).collect();
            let b: Vec<f64> = (0..=deg).map(|i| 100.1 - i as f64 * 7.7).collect();
            let mut v = a.clone(); v.extend_from_slice(&b); v.push(s);
            out.push(case(&format!("c14_poly{}", deg), &v));
        }
    }
    for &s in scalars.iter() {
        let a = [3.0, 2.0, 3.3, 4.0, 5.5, 6.0]; let b = [0.1, 0.2, 0.3, 0.4, 0.5, 0.6];
        let mut v = a.to_vec(); v.extend_from_slice(&b); v.push(s);
        out.push(case("c14_quartic", &v));
    }
    for len in 0..5usize { let mut v: Vec<f64> = (0..len).map(|i| i as f64 + 0.5).collect(); v.push(2.25); out.push(case("c14_polyn", &v)); }
    while out.len() < n {
        match rng.below(8) {
            0 => { let mut v: Vec<f64> = (0..12).map(|_| rng.wide()).collect(); v.push(rng.wide()); out.push(case("c14_quartic", &v)); }
            1 => { let len = rng.below(6) as usize; let mut v: Vec<f64> = (0..len).map(|_| rng.float()).collect(); v.push(rng.float()); out.push(case("c14_polyn", &v)); }
            _ => {
                let deg = rng.below(9) as usize;
                let mut v: Vec<f64> = (0..2 * (deg + 1)).map(|_| match rng.below(3) { 0 => rng.wide(), 1 => rng.odd(), _ => rng.float() }).collect();
                v.push(match rng.below(3) { 0 => rng.odd(), 1 => rng.wide(), _ => rng.float() });
                out.push(case(&format!("c14_poly{}", deg), &v));
            }
        }
    }
}

// ------------------------------------------------------------------------------------- C04 / C05
fn knots_of(p: &[f64]) -> Vec<Knot> { p.chunks(2).map(|c| Knot { x: c[0], y: c[1] }).collect() }
fn run_c04(p: &[f64]) -> Option<String> {
    let ks = knots_of(p);
    let n = ks.len();
    let sp = constrained_spline(&ks);
    if sp.segments.len() != n - 1 { return Some(format!("{} cubics for {} knots", sp.segments.len(), n)); }
    // reference slopes in DD
    let sec = |i: usize| DD::from(ks[i + 1].y).sub(DD::from(ks[i].y)).div(DD::from(ks[i + 1].x).sub(DD::from(ks[i].x)));
    let mut f: Vec<DD> = vec![DD::from(0.0); n];
    for i in 1..n - 1 {
        let (a, b) = (sec(i - 1), sec(i));
        // sign test and harmonic mean without forming the product of the secants (it may be out of range although the mean is not)
        let (af, bf) = (a.to_f64(), b.to_f64());
        let opposite_or_flat = af == 0.0 || bf == 0.0 || (af > 0.0) != (bf > 0.0);
        f[i] = if opposite_or_flat { DD::from(0.0) } else { DD::from(2.0).div(DD::from(1.0).div(a).add(DD::from(1.0).div(b))) };
    }
    f[0] = DD::from(1.5).mul(sec(0)).sub(DD::from(0.5).mul(f[1]));
    f[n - 1] = DD::from(1.5).mul(sec(n - 2)).sub(DD::from(0.5).mul(f[n - 2]));
    for i in 0..n - 1 {
        let s = &sp.segments[i];
        if s.end.to_bits() != ks[i + 1].x.to_bits() { return Some(format!("end of cubic {} is {:e}, right abscissa is {:e}", i, s.end, ks[i + 1].x)); }
        let c = s.poly.0;
        if c.iter().any(|v| !v.is_finite()) { return Some(format!("cubic {} has a non-finite coefficient {:?}", i, c)); }
        let dx = (ks[i + 1].x - ks[i].x).abs();
        let xm = ks[i].x.abs().max(ks[i + 1].x.abs()).max(dx);
        let cond = (xm / dx).powi(3).max(1.0);
        // the construction's intermediate terms live at BOTH knots (a is computed from b*x0, c*x0^2, d*x0^3)
        let mag_all = polyval_dd(&c, ks[i].x).1.max(polyval_dd(&c, ks[i + 1].x).1).max(ks[i].y.abs()).max(ks[i + 1].y.abs());
        let dmag_all = {
            let dc = [c[1], 2.0 * c[2], 3.0 * c[3]];
            polyval_dd(&dc, ks[i].x).1.max(polyval_dd(&dc, ks[i + 1].x).1)
        };
        for (j, k) in [(i, ks[i]), (i + 1, ks[i + 1])] {
            let (v, _mag) = polyval_dd(&c, k.x);
            let scale = mag_all.max(1e-300);
            let err = v.sub(DD::from(k.y)).abs().to_f64();
            if !(err <= 1024.0 * U * scale * cond) { return Some(format!("cubic {} at knot {}: value {:e}, ordinate {:e} (|diff| {:e})", i, j, v.to_f64(), k.y, err)); }
            // derivative b + 2 c x + 3 d x^2
            let dc = [c[1], 2.0 * c[2], 3.0 * c[3]];
            let (dv, _dmag) = polyval_dd(&dc, k.x);
            let derr = dv.sub(f[j]).abs().to_f64();
            let dscale = dmag_all.max(f[j].to_f64().abs()).max(sec(i).to_f64().abs()).max(mag_all / dx);
            if !(derr <= 4096.0 * U * dscale * cond + 1e-300) {
                return Some(format!("cubic {} at knot {}: slope {:e}, prescribed (Kruger) slope {:e} (|diff| {:e})", i, j, dv.to_f64(), f[j].to_f64(), derr));
            }
        }
        // C05: monotone on the interval and between the ordinates (checked at the critical points of the derivative and a grid)
        let (ya, yb) = (ks[i].y.min(ks[i + 1].y), ks[i].y.max(ks[i + 1].y));
        let span = (yb - ya).max(1e-300);
        for t in 0..=32 {
            let x = ks[i].x + (ks[i + 1].x - ks[i].x) * (t as f64 / 32.0);
            let (v, mag) = polyval_dd(&c, x);
            let slack = 1024.0 * U * mag.max(mag_all) * cond + 1e-9 * span;
            let vv = v.to_f64();
            if !(vv >= ya - slack && vv <= yb + slack) { return Some(format!("overshoot: cubic {} at x={:e} is {:e}, outside [{:e},{:e}]", i, x, vv, ya, yb)); }
        }
    }
    None
}
/// structure only (no numerics, so ill-conditioned knot lists are fine): one cubic per interval, each ending verbatim at its right abscissa
fn run_c04_struct(p: &[f64]) -> Option<String> {
    let knots: Vec<Knot> = p.chunks(2).map(|c| Knot { x: c[0], y: c[1] }).collect();
    let s = constrained_spline(&knots);
    if s.segments.len() != knots.len() - 1 { return Some(format!("{} knots gave {} cubics (one per interval expected); abscissae {:?}", knots.len(), s.segments.len(), knots.iter().map(|k| k.x).collect::<Vec<_>>())); }
    for (i, sg) in s.segments.iter().enumerate() {
        if sg.end.to_bits() != knots[i + 1].x.to_bits() { return Some(format!("cubic {} ends at {:e}, the right abscissa of its interval is {:e}", i, sg.end, knots[i + 1].x)); }
    }
    None
}
fn gen_c04_struct(rng: &mut Rng, count: usize, out: &mut Vec<Case>) {
    for _ in 0..count {
        let k = 3 + rng.below(10) as usize;
        let mut x = match rng.below(5) { 0 => 0.0, 1 => 1.0, 2 => -1e9, 3 => 1e-300, _ => rng.float() };
        let mut v = Vec::new();
        for _ in 0..k {
            v.push(x); v.push(rng.float());
            // strictly increasing, by steps from "next float" to ordinary
            x = match rng.below(6) {
                0 => f64::from_bits(if x >= 0.0 { x.to_bits() + 1 } else { x.to_bits() - 1 }),
                1 => { let y = x + 1e-17; if y > x { y } else { f64::from_bits(if x >= 0.0 { x.to_bits() + 1 } else { x.to_bits() - 1 }) } }
                2 => { let y = x + x.abs() * 3e-16; if y > x { y } else { x + 1e-300 } }
                3 => x + 1e-9,
                _ => x + 0.5 + rng.unit(),
            };
            if x == 0.0 && v[v.len() - 2] == 0.0 { x = 5e-324; }
        }
        // keep only strictly increasing lists (next-float stepping across zero may stall)
        let xs: Vec<f64> = v.chunks(2).map(|c| c[0]).collect();
        if xs.windows(2).all(|w| w[0] < w[1]) { out.push(case("c04_struct", &v)); }
    }
}
fn gen_c04(rng: &mut Rng, n: usize, out: &mut Vec<Case>) {
    gen_c04_struct(rng, (n / 10).min(400), out);
    let shapes: Vec<Vec<(f64, f64)>> = vec![
        vec![(0.0, 0.0), (1.0, 1.0), (2.0, 2.0), (3.0, 3.0)],
        vec![(0.0, 0.0), (1.0, 1.0), (2.0, 0.0), (3.0, 1.0), (4.0, 0.0)],
        vec![(0.0, 0.0), (1.0, 0.0), (2.0, 1.0), (3.0, 1.0), (4.0, 2.0)],
        vec![(0.0, 0.0), (1.0, 2.0), (2.0, 3.0), (3.0, 7.0), (4.0, 7.5), (5.0, 12.0), (6.0, 13.0)],
        vec![(0.0, 1.0), (1.0, 2.0), (2.0, 6.0), (3.0, 7.0), (4.0, 8.0)],
        vec![(0.0, 0.0), (1.0, 1e-8), (2.0, 2e-8), (3.0, 3e-8)],
        vec![(0.0, 0.0), (1.0, 1e-8), (2.0, 3e-8), (3.0, 3.5e-8), (4.0, 5e-8)],
        vec![(0.0, 0.0), (1.0, 1e-160), (2.0, 0.5e-160), (3.0, 1e-160)],
        vec![(0.0, 0.0), (1.0, 1e-170), (2.0, 0.0), (3.0, 1e-170)],
        vec![(0.0, 0.0), (1.0, 1e-165), (2.0, -1e-170), (3.0, 1.0)],
        vec![(1.0, 5.0), (2.0, 3.0), (4.0, 3.0)],
        vec![(0.0, 0.0), (0.5, 4.0), (3.0, 5.0), (3.5, 9.0), (10.0, 9.5), (11.0, 20.0)],
        vec![(100.0, 1.0), (101.0, 2.0), (102.0, 1.5), (103.0, 4.0)],
        // huge ordinates: secant slopes around 1e160 (their product is not representable, their harmonic mean is)
        vec![(0.0, 0.0), (1.0, 1e160), (2.0, 3e160), (3.0, 4e160)],
        vec![(0.0, 0.0), (1.0, -2e170), (2.0, -3e170), (3.0, -7e170), (4.0, -7.5e170)],
        vec![(0.0, 1e200), (1e-3, 2e200), (2e-3, 2.5e200), (3e-3, 4e200)],
    ];
    for sh in shapes.iter() { let v: Vec<f64> = sh.iter().flat_map(|(x, y)| vec![*x, *y]).collect(); out.push(case("c04_spline", &v)); }
    while out.len() < n {
        let k = if rng.below(5) == 0 { 3 + rng.below(38) as usize } else { 3 + rng.below(6) as usize };
        let mut x = (rng.below(21) as f64) - 10.0;
        let mut v = Vec::new();
        let mut y = rng.float();
        for _ in 0..k {
            v.push(x); v.push(y);
            x += match rng.below(4) { 0 => 1.0, 1 => 0.25 + rng.unit(), 2 => 1e-3 + rng.unit() * 1e-2, _ => 1.0 + rng.below(5) as f64 };
            y = match rng.below(5) { 0 => y, 1 => y + rng.unit(), 2 => y - rng.unit(), 3 => y + (rng.unit() - 0.5) * 1e-6, _ => rng.float() };
        }
        out.push(case("c04_spline", &v));
    }
}

// ------------------------------------------------------------------------------------------- C06
fn run_c06(p: &[f64]) -> Option<String> {
    let ks = knots_of(p);
    let n = ks.len();
    let l = linear(&ks);
    if l.segments.len() != n - 1 { return Some(format!("{} segments for {} knots", l.segments.len(), n)); }
    let mut fx = ks[0].x;
    let mut fy = ks[0].y;
    for i in 0..n - 1 {
        let nx = if ks[i + 1].x > fx { ks[i + 1].x } else { fx };
        let ny = ks[i + 1].y;
        let s = &l.segments[i];
        if !(s.end == nx) { return Some(format!("end of segment {} is {:e}, running maximum of the abscissae is {:e}", i, s.end, nx)); }
        let c = s.poly.0;
        let dx = nx - fx;
        let at = |x: f64| polyval_dd(&c, x);
        let (v0, m0) = at(fx);
        if !(v0.sub(DD::from(fy)).abs().to_f64() <= 16.0 * U * m0.max(fy.abs()) + 1e-300) { return Some(format!("segment {} at its left knot ({:e},{:e}) evaluates to {:e}", i, fx, fy, v0.to_f64())); }
        if dx >= f64::EPSILON && fy != ny && ((ny - fy) / dx).abs() > 1e-290 && c[1] == 0.0 {
            return Some(format!("segment {} is at least machine epsilon wide ({:e}) and its knots differ in ordinate ({:e} vs {:e}) but its slope is 0", i, dx, fy, ny));
        }
        if dx >= f64::EPSILON {
            let (v1, m1) = at(nx);
            let cond = ((fx.abs().max(nx.abs())) / dx).max(1.0);
            if !(v1.sub(DD::from(ny)).abs().to_f64() <= 16.0 * U * m1.max(ny.abs()).max(fy.abs()) * cond + 1e-300) { return Some(format!("segment {} (width {:e} >= eps) at its right knot ({:e},{:e}) evaluates to {:e}", i, dx, nx, ny, v1.to_f64())); }
        } else if c[1] != 0.0 || c[0].to_bits() != fy.to_bits() && !(c[0] == fy) {
            return Some(format!("segment {} is narrower than machine epsilon ({:e}) but is not the constant {:e}: {:?}", i, dx, fy, c));
        }
        fx = nx; fy = ny;
    }
    None
}
fn gen_c06(rng: &mut Rng, n: usize, out: &mut Vec<Case>) {
    let e = f64::EPSILON;
    let shapes: Vec<Vec<(f64, f64)>> = vec![
        vec![(0.0, 0.0), (1.0, 1.0), (2.0, 2.0)],
        vec![(0.0, 2.0), (e, 3.0)], vec![(1.0, 2.0), (1.0 + e, 3.0)], vec![(0.0, 2.0), (e * 0.5, 3.0)], vec![(0.0, 0.0), (e * 0.75, 1.0), (1.0, 2.0)],
        vec![(0.0, 0.0), (0.25 * e, 1.0), (0.5 * e, 2.0), (0.75 * e, 3.0), (1.0, 4.0)],
        vec![(1.0, 1.0), (1.0, 1.0), (2.0, 3.0)], vec![(1.0, 1.0), (1.0, 1.0)],
        vec![(0.0, 0.0), (2.0, 1.0), (1.0, 5.0), (3.0, 2.0)], vec![(3.0, 0.0), (2.0, 1.0), (1.0, 5.0)],
        vec![(-5.0, 1.0), (-4.0, -1.0), (-4.5, 3.0), (0.0, 0.0)], vec![(1e9, 1.0), (1e9 + 1.0, 2.0), (1e9 + 3.0, -2.0)],
        vec![(1048576.0, 1.0), (f64::from_bits(1048576.0f64.to_bits() + 1), 2.0), (1048577.0, 0.0)],
        vec![(1.7e9, 5.0), (f64::from_bits(1.7e9f64.to_bits() + 1), 7.0)], vec![(-1048576.0, 1.0), (f64::from_bits((-1048576.0f64).to_bits() - 1), 3.0)],
        vec![(-3.0, 1.0), (-3.0, 2.0), (-2.0, 5.0)], vec![(-3.0, 1.0), (-3.0 + e, 2.0), (-1.0, 5.0)], vec![(-2.0, 1.0), (-2.5, 4.0), (-1.0, 0.0)],
    ];
    for sh in shapes.iter() { let v: Vec<f64> = sh.iter().flat_map(|(x, y)| vec![*x, *y]).collect(); out.push(case("c06_linear", &v)); }
    while out.len() < n {
        let k = if rng.below(5) == 0 { 2 + rng.below(39) as usize } else { 2 + rng.below(5) as usize };
        let mut v = Vec::new();
        let mut x = rng.float();
        for _ in 0..k {
            v.push(x); v.push(rng.float());
            x = match rng.below(6) { 0 => x, 1 => x + e * (rng.below(5) as f64) * 0.25 * x.abs().max(1.0), 2 => x - rng.unit(), 3 => x + e * 0.5, _ => x + rng.unit() * 3.0 };
        }
        out.push(case("c06_linear", &v));
    }
}

// ------------------------------------------------------------------------------------------ C02 / C03 / C12 / C16 (segment selection)
// params: [N, end_0 .. end_{N-1}, query_0 .. query_{K-1}]; piece i is Poly1([i, 1]) so a returned value identifies the piece AND the argument
fn sel_oracle(ends: &[f64], x: f64) -> usize {
    for (i, e) in ends.iter().enumerate() { if *e > x { return i; } }
    ends.len() - 1
}
fn sel_pw(ends: &[f64]) -> Piecewise<Poly1> {
    Piecewise { segments: ends.iter().enumerate().map(|(i, e)| Segment { end: *e, poly: Poly1([i as f64 * 1024.0, 1.0]) }).collect() }
}
fn run_sel(kind: &str, p: &[f64]) -> Option<String> {
    let n = p[0] as usize;
    let ends = &p[1..1 + n];
    let qs = &p[1 + n..];
    let pw = sel_pw(ends);
    let want = |x: f64| -> f64 { let i = sel_oracle(ends, x); Poly1([i as f64 * 1024.0, 1.0]).evaluate(x) };
    match kind {
        "c02_direct" => {
            for &x in qs {
                let got = pw.evaluate(x);
                if x.is_nan() { continue; }
                let w = want(x);
                if got.to_bits() != w.to_bits() { return Some(format!("direct evaluation at x={:e} returned {:e}, the selection rule (piece {}) gives {:e}; ends={:?}", x, got, sel_oracle(ends, x), w, ends)); }
            }
            None
        }
        "c03_hist" | "c16_hist_nan" => {
            let mut ev = PiecewiseEvaluator::new(&pw.segments);
            for (k, &x) in qs.iter().enumerate() {
                let got = ev.evaluate(x);
                if x.is_nan() { continue; }
                let w = pw.evaluate(x);
                if got.to_bits() != w.to_bits() { return Some(format!("evaluator query #{} x={:e} returned {:e}, direct evaluation returns {:e} (piece {}); ends={:?} history={:?}", k, x, got, w, sel_oracle(ends, x), ends, &qs[..=k])); }
            }
            None
        }
        "c12_v" | "c16_v_nan" => {
            // non-NaN arguments: each one is evaluated with the piece direct evaluation selects for the running maximum
            let got: Vec<f64> = pw.evaluate_v(qs.iter().copied()).collect();
            if got.len() != qs.len() { return Some(format!("evaluate_v yielded {} values for {} arguments", got.len(), qs.len())); }
            if kind == "c16_v_nan" { return None; }
            let mut runmax = f64::NEG_INFINITY;
            let mut nondecr = true;
            for (k, &x) in qs.iter().enumerate() {
                if k > 0 && x < qs[k - 1] { nondecr = false; }
                if nondecr {
                    let d = pw.evaluate(x);
                    if got[k].to_bits() != d.to_bits() { return Some(format!("evaluate_v argument #{} x={:e} gave {:e} but evaluating it individually gives {:e} (non-decreasing arguments); ends={:?} args={:?}", k, x, got[k], d, ends, &qs[..=k])); }
                }
                if x > runmax { runmax = x; }
                let i = sel_oracle(ends, runmax);
                let w = Poly1([i as f64 * 1024.0, 1.0]).evaluate(x);
                if got[k].to_bits() != w.to_bits() { return Some(format!("evaluate_v argument #{} x={:e} gave {:e}; piece {} (selected for the running maximum {:e}) gives {:e}; ends={:?} args={:?}", k, x, got[k], i, runmax, w, ends, &qs[..=k])); }
            }
            None
        }
        _ => Some("unknown selection case".to_string()),
    }
}

fn gen_sel(rng: &mut Rng, n: usize, out: &mut Vec<Case>, kinds: &[&str]) {
    let n = n.min(3000);
    let mut push = |ends: &[f64], qs: &[f64], out: &mut Vec<Case>, kind: &str| {
        let mut v = vec![ends.len() as f64];
        v.extend_from_slice(ends);
        v.extend_from_slice(qs);
        out.push(case(kind, &v));
    };
    let mut round = 0usize;
    while out.len() < n {
        let kind = kinds[round % kinds.len()];
        round += 1;
        let nan_ok = kind.starts_with("c16");
        // sizes: small ones often, up to 40 segments; grid ends produce duplicates
        let nseg = match rng.below(4) { 0 => 1 + rng.below(3) as usize, 1 => 1 + rng.below(8) as usize, 2 => 8 + rng.below(10) as usize, _ => 1 + rng.below(40) as usize };
        let style = rng.below(4);
        let mut ends: Vec<f64> = (0..nseg).map(|_| match style {
            0 => (rng.below(9) as f64) - 4.0,
            1 => (rng.below(2 * nseg as u64 + 1) as f64) * 0.5 - nseg as f64 * 0.5,
            2 => rng.float(),
            _ => (rng.below(5) as f64) * 1e300 - 2e300,
        }).collect();
        ends.sort_by(|a, b| a.partial_cmp(b).unwrap());
        if rng.below(8) == 0 { let l = ends.len(); ends[l - 1] = f64::INFINITY; }
        if rng.below(16) == 0 { ends[0] = f64::NEG_INFINITY; }
        let k = 1 + rng.below(14) as usize;
        let mut qs: Vec<f64> = Vec::new();
        for _ in 0..k {
            let e = ends[rng.below(nseg as u64) as usize];
            let q = match rng.below(10) {
                0 => e,
                1 => f64::from_bits(e.to_bits().wrapping_add(1)),
                2 => f64::from_bits(e.to_bits().wrapping_sub(1)),
                3 => f64::INFINITY,
                4 => f64::NEG_INFINITY,
                5 => ends[0] - 1.0,
                6 => ends[nseg - 1] + 1.0,
                7 => e + (rng.unit() - 0.5),
                8 => if nan_ok { f64::NAN } else { -e },
                _ => rng.float(),
            };
            let q = if q.is_nan() && !nan_ok { 0.0 } else { q };
            qs.push(q);
        }
        if kind == "c12_v" && rng.below(3) != 0 { qs.sort_by(|a, b| a.partial_cmp(b).unwrap()); }
        push(&ends, &qs, out, kind);
    }
}

// ------------------------------------------------------------------------------------------ C13 / C15 / C11 (piecewise structure)
// params: [NF, (end, c0, c1) x NF, NG, (end, c0, c1) x NG, extra...]; coefficients and ends are small dyadic numbers so that every
// quantity below is exact in f64 and bit comparison is meaningful.
fn read_pw(p: &[f64]) -> (Piecewise<Poly1>, usize) {
    let n = p[0] as usize;
    let mut segs = Vec::new();
    for i in 0..n { segs.push(Segment { end: p[1 + 3 * i], poly: Poly1([p[2 + 3 * i], p[3 + 3 * i]]) }); }
    (Piecewise { segments: segs }, 1 + 3 * n)
}
fn pw_ends<T>(f: &Piecewise<T>) -> Vec<f64> { f.segments.iter().map(|s| s.end).collect() }
fn test_points(ends: &[f64]) -> Vec<f64> {
    let mut xs = vec![f64::NEG_INFINITY, f64::INFINITY];
    for e in ends { xs.push(*e); xs.push(*e - 0.5); xs.push(*e + 0.5); xs.push(f64::from_bits(e.to_bits().wrapping_add(1))); xs.push(f64::from_bits(e.to_bits().wrapping_sub(1))); }
    xs.retain(|x| !x.is_nan());
    xs
}
fn run_pwops(kind: &str, p: &[f64]) -> Option<String> {
    let (f, used) = read_pw(p);
    let fe = pw_ends(&f);
    match kind {
        "c13_add" | "c13_sub" => {
            let (g, _used2) = read_pw(&p[used..]);
            // the only piece type with `&T + &T` in the crate is IntOfLogPoly4
            let q4 = |w: &Piecewise<Poly1>| Piecewise { segments: w.segments.iter().map(|s| Segment { end: s.end, poly: IntOfLogPoly4 { k: s.poly.0[0], coeffs: [s.poly.0[1], s.poly.0[0] * 0.5, 1.0, s.poly.0[1] + 3.0], u: s.poly.0[1] * 4.0 } }).collect() };
            let (f, g) = (q4(&f), q4(&g));
            let ge = pw_ends(&g);
            let add = kind == "c13_add";
            let h = if add { &f + &g } else { &f - &g };
            let he = pw_ends(&h);
            if h.segments.is_empty() { return Some("result has no pieces".into()); }
            if h.segments.len() > f.segments.len() + g.segments.len() - 1 { return Some(format!("result has {} pieces for operands of {} and {}", h.segments.len(), f.segments.len(), g.segments.len())); }
            for w in he.windows(2) { if !(w[0] <= w[1]) { return Some(format!("result breakpoints not non-decreasing: {:?}", he)); } }
            for e in &he { if !fe.iter().chain(ge.iter()).any(|q| q.to_bits() == e.to_bits()) { return Some(format!("result breakpoint {:e} is not a breakpoint of either operand", e)); } }
            let mut xs = test_points(&fe); xs.extend(test_points(&ge));
            for x in xs {
                let (i, j, k) = (sel_oracle(&fe, x), sel_oracle(&ge, x), sel_oracle(&he, x));
                let (a, b) = (f.segments[i].poly, g.segments[j].poly);
                let want = if add { &a + &b } else { &a - &b };
                let got = h.segments[k].poly;
                let bits = |q: &IntOfLogPoly4| [q.k.to_bits(), q.coeffs[0].to_bits(), q.coeffs[1].to_bits(), q.coeffs[2].to_bits(), q.coeffs[3].to_bits(), q.u.to_bits()];
                if bits(&got) != bits(&want) {
                    return Some(format!("at x={:e} the result's piece {} is {:?}; piece {} of f {} piece {} of g is {:?}; f ends {:?} g ends {:?} result ends {:?}", x, k, got, i, if add { "+" } else { "-" }, j, want, fe, ge, he));
                }
            }
            None
        }
        "c15_ops" => {
            let s = p[used];
            let c = p[used + 1];
            let chk = |name: &str, r: &Piecewise<Poly1>, piece: &dyn Fn(Poly1) -> Poly1| -> Option<String> {
                if r.segments.len() != f.segments.len() { return Some(format!("{}: {} pieces became {}", name, f.segments.len(), r.segments.len())); }
                for (i, (a, b)) in f.segments.iter().zip(r.segments.iter()).enumerate() {
                    if a.end.to_bits() != b.end.to_bits() { return Some(format!("{}: breakpoint {} changed from {:e} to {:e}", name, i, a.end, b.end)); }
                    let w = piece(a.poly);
                    if w.0[0].to_bits() != b.poly.0[0].to_bits() || w.0[1].to_bits() != b.poly.0[1].to_bits() { return Some(format!("{}: piece {} is {:?}, the operation on that piece alone gives {:?}", name, i, b.poly.0, w.0)); }
                }
                None
            };
            if let Some(e) = chk("mul", &(f.clone() * s), &|q| q * s) { return Some(e); }
            let mut m = f.clone(); m *= s;
            if let Some(e) = chk("mul_assign", &m, &|q| { let mut q = q; q *= s; q }) { return Some(e); }
            if let Some(e) = chk("neg", &(-f.clone()), &|q| -q) { return Some(e); }
            let mut t = f.clone(); t.translate(c);
            if let Some(e) = chk("translate", &t, &|q| { let mut q = q; q.translate(c); q }) { return Some(e); }
            None
        }
        "c11_integral" => {
            let k0 = Knot { x: p[used], y: p[used + 1] };
            let big = f.integral(k0);
            let ind = f.indefinite();
            for (name, r) in [("integral", &big), ("indefinite", &ind)] {
                if r.segments.len() != f.segments.len() { return Some(format!("{}: {} pieces became {}", name, f.segments.len(), r.segments.len())); }
                for (i, (a, b)) in f.segments.iter().zip(r.segments.iter()).enumerate() {
                    if a.end.to_bits() != b.end.to_bits() { return Some(format!("{}: breakpoint {} changed from {:e} to {:e}", name, i, a.end, b.end)); }
                    let d = b.poly.derivative();
                    if d.0[0] != a.poly.0[0] || d.0[1] != a.poly.0[1] { return Some(format!("{}: piece {} = {:?} is not an antiderivative of {:?}", name, i, b.poly.0, a.poly.0)); }
                    if i + 1 < r.segments.len() {
                        let (l, rr) = (b.poly.evaluate(b.end), r.segments[i + 1].poly.evaluate(b.end));
                        if l != rr { return Some(format!("{}: pieces {} and {} disagree at the breakpoint {:e}: {:e} vs {:e}", name, i, i + 1, b.end, l, rr)); }
                    }
                }
            }
            if big.segments[0].poly.evaluate(k0.x) != k0.y { return Some(format!("integral: first piece at knot x={:e} is {:e}, expected {:e}", k0.x, big.segments[0].poly.evaluate(k0.x), k0.y)); }
            if ind.segments[0].poly.0[0] != 0.0 { return Some(format!("indefinite: first piece has additive constant {:e}", ind.segments[0].poly.0[0])); }
            let by_val: Vec<Segment<Poly2>> = Segment::integral_iter(f.segments.clone(), k0).collect();
            let by_ref: Vec<Segment<Poly2>> = Segment::integral_iter_ref(&f.segments, k0).collect();
            if by_val != by_ref || by_ref != big.segments { return Some("by-value / by-reference iterators and integral() produce different pieces".into()); }
            None
        }
        _ => Some("unknown piecewise case".into()),
    }
}

fn gen_pwops(rng: &mut Rng, n: usize, out: &mut Vec<Case>, kinds: &[&str]) {
    let n = n.min(3000);
    let mut round = 0usize;
    let mut mkpw = |rng: &mut Rng, v: &mut Vec<f64>| {
        let nseg = match rng.below(3) { 0 => 1 + rng.below(2) as usize, 1 => 1 + rng.below(6) as usize, _ => 1 + rng.below(14) as usize };
        let mut ends: Vec<f64> = (0..nseg).map(|_| (rng.below(25) as f64) * 0.5 - 4.0).collect();
        ends.sort_by(|a, b| a.partial_cmp(b).unwrap());
        if rng.below(3) == 0 { ends.dedup(); }
        v.push(ends.len() as f64);
        for e in ends { v.push(e); v.push((rng.below(33) as f64) - 16.0); v.push(((rng.below(17) as f64) - 8.0) * 2.0); }
    };
    while out.len() < n {
        let kind = kinds[round % kinds.len()];
        round += 1;
        let mut v = Vec::new();
        mkpw(rng, &mut v);
        match kind {
            "c13_add" | "c13_sub" => { mkpw(rng, &mut v); }
            "c15_ops" => { v.push([2.0, -1.0, 0.5, 0.0, 3.0, -0.25][rng.below(6) as usize]); v.push((rng.below(17) as f64) - 8.0); }
            _ => { v.push((rng.below(9) as f64) - 6.0); v.push((rng.below(9) as f64) - 4.0); }
        }
        out.push(case(kind, &v));
    }
}

// ------------------------------------------------------------------------------------------ C17 (approx traits)
// params: [type_id, eps, max_relative, nA, a.., nB, b..]; the value of the type is built from the number list (see build order below);
// oracle: equal list lengths && f64::{abs_diff_eq, relative_eq} (approx's own) on every corresponding pair.
fn run_c17(p: &[f64]) -> Option<String> {
    use approx::{AbsDiffEq, RelativeEq};
    let same_object = p[0] >= 100.0;
    let ty = if same_object { p[0] as usize - 100 } else { p[0] as usize };
    let (eps, mr) = (p[1], p[2]);
    let na = p[3] as usize;
    let a = &p[4..4 + na];
    let nb = p[4 + na] as usize;
    let b = &p[5 + na..5 + na + nb];
    let o_abs = a.len() == b.len() && a.iter().zip(b.iter()).all(|(x, y)| x.abs_diff_eq(y, eps));
    let o_rel = a.len() == b.len() && a.iter().zip(b.iter()).all(|(x, y)| x.relative_eq(y, eps, mr));
    macro_rules! cmp { ($name:expr, $x:expr, $y:expr) => {{
        let (x, y) = ($x, $y);
        // same_object: the value is compared with ITSELF (the very same object), b is a copy of a
        let g_abs = if same_object { x.abs_diff_eq(&x, eps) } else { x.abs_diff_eq(&y, eps) };
        let g_rel = if same_object { x.relative_eq(&x, eps, mr) } else { x.relative_eq(&y, eps, mr) };
        if g_abs != o_abs { return Some(format!("{}: abs_diff_eq(eps={:e}) is {} but the conjunction over the numbers {:?} / {:?} is {}", $name, eps, g_abs, a, b, o_abs)); }
        if g_rel != o_rel { return Some(format!("{}: relative_eq(eps={:e}, max_relative={:e}) is {} but the conjunction over the numbers {:?} / {:?} is {}", $name, eps, mr, g_rel, a, b, o_rel)); }
        None
    }}; }
    macro_rules! arr { ($t:ident, $n:expr, $v:expr) => {{ let mut q = [0.0f64; $n]; q.copy_from_slice(&$v[..$n]); $t(q) }}; }
    let pw = |v: &[f64]| Piecewise { segments: v.chunks(3).map(|c| Segment { end: c[0], poly: Poly1([c[1], c[2]]) }).collect::<Vec<_>>() };
    match ty {
        0 => cmp!("Poly0", Poly0(a[0]), Poly0(b[0])),
        1 => cmp!("Poly1", arr!(Poly1, 2, a), arr!(Poly1, 2, b)),
        2 => cmp!("Poly2", arr!(Poly2, 3, a), arr!(Poly2, 3, b)),
        3 => cmp!("Poly3", arr!(Poly3, 4, a), arr!(Poly3, 4, b)),
        4 => cmp!("Poly4", arr!(Poly4, 5, a), arr!(Poly4, 5, b)),
        5 => cmp!("Poly5", arr!(Poly5, 6, a), arr!(Poly5, 6, b)),
        6 => cmp!("Poly6", arr!(Poly6, 7, a), arr!(Poly6, 7, b)),
        7 => cmp!("Poly7", arr!(Poly7, 8, a), arr!(Poly7, 8, b)),
        8 => cmp!("Poly8", arr!(Poly8, 9, a), arr!(Poly8, 9, b)),
        9 => cmp!("PolyN", PolyN(a.to_vec()), PolyN(b.to_vec())),
        10 => cmp!("Log<Poly2>", Log(arr!(Poly2, 3, a)), Log(arr!(Poly2, 3, b))),
        11 => cmp!("IntOfLog<Poly1>", IntOfLog { k: a[0], poly: Poly1([a[1], a[2]]) }, IntOfLog { k: b[0], poly: Poly1([b[1], b[2]]) }),
        12 => cmp!("IntOfLogPoly4", IntOfLogPoly4 { k: a[0], coeffs: [a[1], a[2], a[3], a[4]], u: a[5] }, IntOfLogPoly4 { k: b[0], coeffs: [b[1], b[2], b[3], b[4]], u: b[5] }),
        13 => cmp!("Segment<Poly1>", Segment { end: a[0], poly: Poly1([a[1], a[2]]) }, Segment { end: b[0], poly: Poly1([b[1], b[2]]) }),
        14 => cmp!("Piecewise<Poly1>", pw(a), pw(b)),
        15 => cmp!("Piecewise<Log<Poly1>>", Piecewise { segments: a.chunks(3).map(|c| Segment { end: c[0], poly: Log(Poly1([c[1], c[2]])) }).collect::<Vec<_>>() }, Piecewise { segments: b.chunks(3).map(|c| Segment { end: c[0], poly: Log(Poly1([c[1], c[2]])) }).collect::<Vec<_>>() }),
        _ => Some("unknown type id".into()),
    }
}

fn gen_c17(rng: &mut Rng, n: usize, out: &mut Vec<Case>) {
    let n = n.min(6000);
    let fixed = [1usize, 2, 3, 4, 5, 6, 7, 8, 9, 0, 3, 3, 6, 3, 0, 0];
    while out.len() < n {
        let ty = rng.below(16) as usize;
        let (na, nb) = match ty {
            9 => { let k = (if rng.below(2) == 0 { rng.below(6) } else { rng.below(41) }) as usize; (k, if rng.below(4) == 0 { rng.below(6) as usize } else { k }) }
            14 | 15 => { let k = 3 * (if rng.below(2) == 0 { rng.below(5) } else { rng.below(41) }) as usize; (k, if rng.below(4) == 0 { 3 * rng.below(5) as usize } else { k }) }
            _ => (fixed[ty], fixed[ty]),
        };
        let eps = [0.0, f64::EPSILON, 0.25, 1.0, 16.0][rng.below(5) as usize];
        let mr = [0.0, f64::EPSILON, 0.125, 0.5][rng.below(4) as usize];
        let a: Vec<f64> = (0..na).map(|_| match rng.below(4) { 0 => (rng.below(9) as f64) - 4.0, 1 => rng.float(), 2 => (rng.below(5) as f64) * 1e300 - 2e300, _ => (rng.below(33) as f64) * 0.125 }).collect();
        // b: a copy of a with 0..2 single-number perturbations of assorted sizes (so that one field decides)
        let mut b: Vec<f64> = (0..nb).map(|i| if i < a.len() { a[i] } else { rng.float() }).collect();
        for _ in 0..rng.below(4) {
            if b.is_empty() { break; }
            let i = rng.below(b.len() as u64) as usize;
            b[i] = match rng.below(8) { 6 | 7 => b[i] + 0.75 * eps, 0 => b[i] + 0.125, 1 => b[i] + 2.0, 2 => b[i] * 1.25, 3 => f64::from_bits(b[i].to_bits().wrapping_add(1)), 4 => -b[i], _ => b[i] + 1e-17 };
        }
        if rng.below(10) == 0 && na > 0 {
            // a value compared with itself, with an infinity or NaN among its numbers (the f64-level relation is false for those)
            let mut a2 = a.clone();
            let i = rng.below(na as u64) as usize;
            a2[i] = [f64::INFINITY, f64::NEG_INFINITY, f64::NAN][rng.below(3) as usize];
            let mut v = vec![100.0 + ty as f64, eps, mr, na as f64];
            v.extend_from_slice(&a2);
            v.push(na as f64);
            v.extend_from_slice(&a2);
            out.push(case("c17_approx", &v));
            continue;
        }
        let mut v = vec![ty as f64, eps, mr, na as f64];
        v.extend_from_slice(&a);
        v.push(nb as f64);
        v.extend_from_slice(&b);
        out.push(case("c17_approx", &v));
    }
}
