#!/usr/bin/env python3
"""Regenerates /verif/MANIFEST.json from tools/props.py (claimed checks) and properties.jsonl."""
import json, os, sys
sys.path.insert(0, os.path.dirname(os.path.abspath(__file__)))
import props as P
VERIF = P.VERIF
allp = [json.loads(l) for l in open(os.path.join(VERIF, 'properties.jsonl'))]
TECH = {
    'proof': 'Verus contracts (requires/ensures) on function bodies extracted mechanically from /repo, discharged by Z3; unbounded',
    'other': 'contract-based: Verus contracts on extracted real bodies for the numeric kernels + Kani harness-form contracts (assume pre / call / assert post) on the compiled crate for the wiring, bounded where loops are unwound',
    'model_checking': 'Kani harness-form contracts on the compiled crate with recording piece types; bounded (loops unwound, sizes enumerated)',
}
checks = []
for pid in sorted(P.PROPS):
    c = P.PROPS[pid]
    if c.get('unclaimed'):
        continue
    checks.append({
        'property_id': pid,
        'quick_cmd': f'./check {pid} --tier quick',
        'thorough_cmd': f'./check {pid} --tier thorough',
        'evidence_file': f'/verif/evidence/{pid}.json',
        'replay_cmd_template': './check replay {path}',
        'engine': 'contracts',
        'level_claimed': {'category': c['level'], 'text': c['explanation'], 'design_ref': f'DESIGN.md section 6 / {pid}'},
        'level_note': '; '.join(c.get('assumptions', [])),
        'technique': c.get('technique', TECH[c['level']]),
    })
na = []
for p in allp:
    if p['id'] not in P.PROPS or P.PROPS[p['id']].get('unclaimed'):
        na.append({'property_id': p['id'], 'reason': P.NOT_APPLICABLE.get(p['id'], 'check not built yet (work in progress; see DESIGN.md section 6 for the plan)')})
m = {
    'version': 1,
    'setup_cmd': './setup.sh',
    'hooks': {'guard': 'cfg(kani)',
              'enable': 'no hook is committed to /repo: tools/krun.py copies the working tree to a scratch directory and appends `#[cfg(kani)] #[path="/verif/kani/<file>_h.rs"] mod verif_kani;` to each source file there (cfg(kani) is set by cargo-kani only); Verus units are extracted mechanically from the working tree by tools/vgen.py',
              'baseline_off_cmd': 'cd /repo && cargo test --workspace --no-fail-fast --offline',
              'source_commits': [], 'add_only': True},
    'engines': [{'name': 'contracts', 'path': '/verif/check', 'serves_properties': [c['property_id'] for c in checks],
                 'kind_free_text': 'contract-based deductive verification: Verus on mechanically extracted real function bodies (tools/vgen.py, tools/vrun.py); Kani harness-form contracts on the compiled crate (tools/krun.py, kani/*.rs); native probe/replay binary (replay/) only decorates failed obligations with concrete inputs'}],
    'checks': checks,
    'notes': 'Fixed defects: see known_findings.txt (C09 b6fee85, C16 fd7a4e6). Exit 2 = undecided (tool limit), never an alarm.',
    'not_applicable': na,
}
json.dump(m, open(os.path.join(VERIF, 'MANIFEST.json'), 'w'), indent=1)
print('claimed:', [c['property_id'] for c in checks], 'not_applicable:', [x['property_id'] for x in na])
