#!/bin/sh
# Semantics-preserving edits of /repo: every check must exit 0 (or 2 = undecided), never print VIOLATION.
for f in /verif/harmless/*.diff; do
  n=$(basename $f .diff); p=$(cat /verif/harmless/$n.prop)
  d=$(mktemp -d /tmp/harmless-XXXXXX); cp -r /repo/src /repo/Cargo.toml /repo/Cargo.lock /repo/benches $d/
  (cd $d && patch -p1 -s < $f) || { echo "$n: patch failed"; rm -rf $d; continue; }
  (cd $d && CARGO_TARGET_DIR=/tmp/harmless-target cargo test --offline 2>&1 | grep -q "94 passed") && t="tests-ok" || t="TESTS-FAIL"
  out=$(/verif/check $p --src-root $d --no-evidence 2>&1 | grep -v "^$" | tail -2 | cut -c1-220 | tr '\n' ' ')
  echo "$n [$p] $t :: $out"
  rm -rf $d
done
rm -rf /tmp/harmless-target
