"""Template processor: splices function text extracted from /repo's working tree into a Verus
template and records where everything came from.

Directives (each on its own line, inside a template `.rs` file):

  //@extract file=src/poly.rs impl="impl Evaluate for Poly8" fn=evaluate [mod=taylor] [ret=r]
  //         [props=C01,C07] [occ=0] [self=no-mut]
  //@contract            (optional)   following lines up to next //@ are spliced between signature and body
  //@hints <generator> k=v ...   (optional, repeatable) proof text generated from the extracted body
  //@sub OLD =====> NEW     (optional, repeatable) exact-text substitution inside the body; OLD must occur exactly
                         once (used to annotate a closure with its `ensures`, or to name a std constant); recorded in evidence
  //@subblock OLD / lines / //@endsub    the same with a multi-line replacement
  //@prologue            (optional)   following lines (ghost lets / proof blocks) are placed at the start of the body
  //@tailproof           (optional)   following lines are placed in a proof block before the result is returned
  //@end

  //@ringlemma name=N vars=a,b,c lhs=".." rhs=".."   emits a proof fn for a polynomial identity with a generated step-by-step body
  //@trait file=src/poly.rs name=Evaluate     check that every `fn` line of the repo's trait occurs in the
                                              template trait that follows (modulo the named return)

What extraction changes (exhaustive, see DESIGN 4.1): attributes and visibility before `fn` are
dropped; `-> T` becomes `-> (r: T)`; a `_` parameter is named `_unused`; contract clauses are inserted; the tail expression `e` becomes
`let __r = e; proof { .. } __r`; `p += e` / `-=` / `*=` on float places become `p = p + e` etc.
Statements, operators, operand order, literals and indices are the repository's.
"""
import re
import os
import sys
import json
import hashlib

sys.path.insert(0, os.path.dirname(os.path.abspath(__file__)))
import rsparse
import exprs
import hints as hintgen


class GenError(Exception):
    """Tool limit: anchor lost / unsupported construct. Never a violation."""


def parse_kv(s):
    out = {}
    for m in re.finditer(r'(\w+)=("([^"]*)"|\S+)', s):
        out[m.group(1)] = m.group(3) if m.group(3) is not None else m.group(2)
    return out


COMPOUND = re.compile(r'^(?P<ind>\s*)(?P<lhs>[^=;]+?)\s*(?P<op>[-+*])=\s*(?P<rhs>[^=].*)$', re.S)


def desugar_compound(stmt):
    """`p += e` -> `p = p + e` (f64 places only; Rust defines AddAssign for f64 exactly so)."""
    code = rsparse.strip_comments(stmt)
    m = COMPOUND.match(code)
    if not m or '\n' in m.group('lhs').strip():
        return stmt, False
    lhs = m.group('lhs').strip()
    if lhs.startswith('let ') or lhs.startswith('*'):
        if lhs.startswith('*'):
            raise GenError(f'compound assignment through a reference is outside the Verus subset: {code.strip()}')
        return stmt, False
    # keep leading comment lines/indent of the original statement
    lead = stmt[:len(stmt) - len(stmt.lstrip())]
    return f"{lead}{lhs} = {lhs} {m.group('op')} ({m.group('rhs').strip()})", True


def desugar_break_value(text, ty=None):
    """rule 11 (Verus has no `break <value>`): returns (new_text, number_of_breaks_rewritten)."""
    total = 0
    pos = 0
    while True:
        code = rsparse._scan_mask(text)
        m = None
        for mm in re.finditer(r'\bloop\s*\{', text[pos:]):
            if code[pos + mm.start()]:
                m = mm
                break
        if not m:
            return text, total
        start = pos + m.start()
        ob = pos + m.end() - 1
        cb = rsparse.match_brace(text, code, ob)
        inner = text[ob + 1:cb]
        icode = rsparse._scan_mask(inner)
        if any(icode[x.start()] for x in re.finditer(r'\b(loop|while|for)\b', inner)):
            raise GenError('break-with-value desugaring: nested loops are outside the supported subset')
        out, last, n = [], 0, 0
        for x in re.finditer(r'\bbreak\s+([^;{}]+);', inner):
            if not icode[x.start()]:
                continue
            out.append(inner[last:x.start()])
            out.append('{ __brk = Some(' + x.group(1).strip() + '); break; }')
            last = x.end()
            n += 1
        out.append(inner[last:])
        if n == 0:
            pos = cb + 1
            continue
        new = '{ let mut __brk' + (f': Option<{ty}>' if ty else '') + ' = None; loop {' + ''.join(out) + '} __brk.unwrap() }'
        text = text[:start] + new + text[cb + 1:]
        total += n
        pos = start + len(new)


def name_return(sig, ret):
    m = re.search(r'->\s*(?!\()([^{]+?)\s*(where\b.*)?$', sig, re.S)
    if not m:
        return sig, False
    ty = m.group(1).strip()
    wh = (' ' + m.group(2)) if m.group(2) else ''
    return sig[:m.start()] + f'-> ({ret}: {ty}){wh}', True


def build_fn(src_root, d, contract, hint_specs, tailproof, vacuity):
    path = os.path.join(src_root, d['file'])
    try:
        S = rsparse.Source(path)
        lo, hi = 0, None
        if 'mod' in d:
            _, ob, cb, _ = S.find_block(r'mod\b', 'mod ' + d['mod'])
            lo, hi = ob, cb
        if 'impl' in d:
            _, ob, cb, _ = S.find_block(r'impl\b', d['impl'], lo, hi, int(d.get('occ', 0)))
            lo, hi = ob, cb
        f = S.find_fn(d['fn'], lo, hi)
    except rsparse.NotFound as e:
        raise GenError(f'anchor lost: {e}')
    ret = d.get('ret', 'r')
    closure_note = None
    if d.get('closure'):
        # rule 14: the body of the (single) closure opened by the text `closure=` becomes a step function: the captured mutable variable
        # `state=` is a local initialised from the parameter `<state>0` and returned next to the closure's value; the signature comes from
        # `stepsig=`.  Everything of the function outside the closure body (the wrapper) is NOT verified here; its normalised hash is pinned.
        body0 = f['body']
        op = d['closure']
        if body0.count(op) != 1 or not op.rstrip().endswith('{'):
            raise GenError(f"anchor lost: closure opener `{op}` does not occur exactly once in {d['fn']}")
        code0 = rsparse._scan_mask(body0)
        ob = body0.index(op) + len(op.rstrip()) - 1
        cb = rsparse.match_brace(body0, code0, ob)
        inner = body0[ob + 1:cb]
        wrapper = body0[:ob + 1] + ' .. ' + body0[cb:]
        wsha = hashlib.sha256(re.sub(r'\s+', ' ', rsparse.strip_comments(wrapper)).strip().encode()).hexdigest()[:16]
        if d.get('wrapsha') and d['wrapsha'] != wsha:
            raise GenError(f"trusted span changed: the text of {d['fn']} around the closure body (normalised sha256 {wsha}) is not the text the step contract was written for ({d['wrapsha']})")
        st = d['state']
        f = dict(f, body=f"\n        let mut {st} = {st}0;\n        let __v = {{{inner}}};\n        (__v, {st})\n    ", sig=d['stepsig'])
        closure_note = (f"closure body `{op} .. }}` extracted as a step function (captured `{st}` = local initialised from parameter `{st}0`, returned with the value); "
                        f"the wrapper around it ({wrapper.count(chr(10)) + 1} lines, normalised sha256 {wsha}) is NOT verified here")
    rename_note = None
    if d.get('rename'):
        # rule 15: a local identifier that is a reserved word of Verus (`int`) is renamed, whole-word, everywhere in the body
        a, b = d['rename'].split('=>')
        n_occ = len(re.findall(r'\b' + re.escape(a) + r'\b', f['body']))
        if n_occ and re.search(r'\b' + re.escape(b) + r'\b', f['body']):
            raise GenError(f"anchor lost: cannot rename `{a}`: `{b}` is already used in {d['fn']}")
        if n_occ:    # an edit that no longer uses the reserved word needs no renaming
            f = dict(f, body=re.sub(r'\b' + re.escape(a) + r'\b', b, f['body']))
            rename_note = f'local identifier `{a}` (reserved in Verus) renamed to `{b}` ({n_occ} occurrences)'
    sig, has_ret = name_return(f['sig'], ret)
    if d.get('closure'):
        sig, has_ret = f['sig'], True
    if d.get('mode') == 'contract-only':
        sig = re.sub(r'([(,]\s*)_(\s*:)', r'\1_unused\2', sig)
        text = (f"    // ---- contract only (assumed in this unit; the body at {d['file']}:{f['line0']}-{f['line1']} is verified in another unit) ----\n"
                '    #[verifier::external_body]\n    ' + sig.strip() + '\n' + (contract.rstrip() + '\n' if contract.strip() else '')
                + '    { unimplemented!() }\n')
        meta = {'file': d['file'], 'impl': d.get('impl'), 'mod': d.get('mod'), 'fn': d['fn'], 'lines': [f['line0'], f['line1']],
                'sha256': f['sha256'], 'desugared': [], 'props': ['none'], 'assumed': True}
        return text, meta
    sig = re.sub(r'([(,]\s*)_(\s*:)', r'\1_unused\2', sig)  # Verus needs a named parameter
    if d.get('sigsub'):
        # textual substitutions on the signature, written a=>b;c=>d (recorded in the evidence)
        for pair in d['sigsub'].split(';;'):
            a, b = pair.split('=>')
            if a not in sig:
                raise GenError(f"anchor lost: signature of {d['fn']} no longer contains `{a}`")
            sig = sig.replace(a, b)
    parts = rsparse.split_top_level(f['body'])
    subs_done = []
    if closure_note:
        subs_done.append(closure_note)
    if rename_note:
        subs_done.append(rename_note)
    if d.get('breakvalue'):
        # rule 11: `loop { .. break E; .. }` in value position -> `{ let mut __brk = None; loop { .. { __brk = Some(E); break; } .. } __brk.unwrap() }`
        n_done = 0
        for k, (t, sp) in enumerate(parts):
            t2, n = desugar_break_value(t, None if d['breakvalue'] == '1' else d['breakvalue'])
            parts[k] = (t2, sp)
            n_done += n
        if n_done == 0:
            raise GenError(f"anchor lost: no `loop` with `break <value>` in {d['fn']}")
        subs_done.append(f'break-with-value desugared ({n_done} break statements): loop {{ .. break E; .. }} =====> {{ let mut __brk = None; loop {{ .. {{ __brk = Some(E); break; }} .. }} __brk.unwrap() }}')
    for a_, b_ in d.get('_subs', []):
        if isinstance(a_, tuple) and a_[0] == '@closurespec':
            _, hd, pty, rty = a_
            hits = [k for k, (t, _s) in enumerate(parts) if hd + ' ' in t]
            if len(hits) != 1 or parts[hits[0]][0].count(hd + ' ') != 1:
                raise GenError(f"anchor lost: closure `{hd} ..` does not occur exactly once in {d['fn']}")
            k = hits[0]
            t = parts[k][0]
            code = rsparse._scan_mask(t)
            i0 = t.index(hd + ' ')
            j0 = i0 + len(hd) + 1
            depth, j1 = 0, j0
            while j1 < len(t):
                if code[j1]:
                    c = t[j1]
                    if c in '([{':
                        depth += 1
                    elif c in ')]}':
                        if depth == 0:
                            break
                        depth -= 1
                    elif c == ',' and depth == 0:
                        break
                j1 += 1
            expr = t[j0:j1].strip()
            if not expr or expr.startswith('{') or '|' in hd[1:-1].replace(' ', '') and ':' in hd:
                raise GenError(f"unsupported closure form `{hd} {expr[:40]}` in {d['fn']}")
            pname = hd.strip('|').strip()
            ann = f"|{pname}: {pty}| -> (o: {rty}) requires {expr} <= {rty}::MAX ensures o == {expr} {{ {expr} }}"
            parts[k] = (t[:i0] + ann + t[j1:], parts[k][1])
            subs_done.append(f'closure `{hd} {expr}` annotated with its own body as contract (rule 16): {ann}')
            continue
        if isinstance(a_, tuple) and a_[0] == '@afterlet':
            # ghost text placed right after the top-level statement `let NAME = ..;` (robust against reordering of later statements)
            def has_top_let(t):
                code = rsparse._scan_mask(t)
                for mm in re.finditer(r'\blet\s+(mut\s+)?' + re.escape(a_[1]) + r'\b', t):
                    if code[mm.start()] and sum((1 if c in '([{' else -1) for q, c in enumerate(t[:mm.start()]) if code[q] and c in '([{)]}') == 0:
                        return True
                return False
            # a part ends at the first top-level `;`, so a part containing a top-level `let NAME` ends with that very statement
            hits = [k for k, (t, _s) in enumerate(parts) if has_top_let(t)]
            if len(hits) != 1 or hits[0] + 1 >= len(parts):
                raise GenError(f"anchor lost: top-level `let {a_[1]} = ..;` not found exactly once in {d['fn']}")
            k = hits[0] + 1
            parts[k] = ('\n' + b_ + '\n' + parts[k][0], parts[k][1])
            continue
        if isinstance(a_, tuple):
            # span substitution: from the (unique) start text through the (unique) end text
            st_, en_ = a_
            hits = [k for k, (t, _s) in enumerate(parts) if st_ in t]
            if len(hits) != 1 or parts[hits[0]][0].count(st_) != 1 or parts[hits[0]][0].count(en_) != 1:
                raise GenError(f"anchor lost: span `{st_}` .. `{en_}` does not occur exactly once in {d['fn']}")
            k = hits[0]
            t = parts[k][0]
            i0 = t.index(st_)
            i1 = t.index(en_)
            if i1 < i0:
                raise GenError(f"anchor lost: span end `{en_}` precedes its start in {d['fn']}")
            i1 += len(en_)
            dropped = t[i0:i1]
            nsha = hashlib.sha256(re.sub(r'\s+', ' ', rsparse.strip_comments(dropped)).strip().encode()).hexdigest()[:16]
            want = d.get('_spansha', {}).get((st_, en_))
            if want and want != nsha:
                raise GenError(f"trusted span changed: the text `{st_}` .. `{en_}` in {d['fn']} (normalised sha256 {nsha}) is not the text the assumed contract was written for ({want})")
            parts[k] = (t[:i0] + b_ + t[i1:], parts[k][1])
            subs_done.append(f'span `{st_}` .. `{en_}` ({dropped.count(chr(10)) + 1} lines, normalised sha256 {nsha}, NOT verified here: replaced by a call with a trusted contract) =====> {b_.strip()}')
            continue
        hits = [k for k, (t, _s) in enumerate(parts) if a_ in t]
        if len(hits) != 1 or parts[hits[0]][0].count(a_) != 1:
            raise GenError(f"anchor lost: `{a_}` does not occur exactly once in {d['fn']}")
        k = hits[0]
        parts[k] = (parts[k][0].replace(a_, b_), parts[k][1])
        subs_done.append(f'{a_} =====> {b_}')
    stmts = [t for t, sep in parts if sep]
    tail = parts[-1][0]
    tail_code = rsparse.strip_comments(tail).strip()
    changed = []
    new_stmts = []
    for s in stmts:
        s2, ch = desugar_compound(s)
        if ch:
            changed.append(rsparse.strip_comments(s).strip())
        new_stmts.append(s2)
    # a unit-valued tail like `self.0 += v` (no semicolon) is a statement for our purposes
    if tail_code and not has_ret:
        s2, ch = desugar_compound(tail)
        if ch:
            changed.append(tail_code)
        new_stmts.append(s2.rstrip())
        tail_code = ''
        tail = ''
    proof = d.get('_preproof', '')
    for hs in list(hint_specs):
        gen, kv = hs
        if 'block' not in kv:
            continue
        # hints for a nested block `let NAME = { stmts; tail };` : rule 3 (tail binding) applied inside the block
        hint_specs.remove(hs)
        name = kv['block']
        hits = [k for k, st in enumerate(new_stmts)
                if re.match(r'^let\s+(mut\s+)?' + re.escape(name) + r'\s*(:[^=]+)?=\s*\{', rsparse.strip_comments(st).strip())]
        if len(hits) != 1:
            raise GenError(f"anchor lost: block `let {name} = {{..}}` not found exactly once in {d['fn']}")
        text = new_stmts[hits[0]]
        code = rsparse._scan_mask(text)
        ob = next(k for k in range(text.index('='), len(text)) if code[k] and text[k] == '{')
        cb = rsparse.match_brace(text, code, ob)
        iparts = rsparse.split_top_level(text[ob + 1:cb])
        istmts = [t for t, sp in iparts if sp]
        itail = iparts[-1][0]
        try:
            kv2 = dict(kv, tailname='__' + name)
            ih = hintgen.generate(gen, kv2, [rsparse.strip_comments(t).strip() for t in istmts], rsparse.strip_comments(itail).strip(), d)
        except (exprs.ParseError, hintgen.HintError) as e:
            raise GenError(f"hint generator `{gen}` cannot read block {name} of {d['fn']}: {e}")
        new_stmts[hits[0]] = (text[:ob + 1] + ';'.join(istmts) + ';' + f'\n        let __{name} = {itail.strip()};\n        proof {{\n{ih}\n        }}\n        __{name}\n        ' + text[cb:])
        proof += f"        let X = rv({kv.get('x', 'x')});\n        assert(rv({name}) == {hintgen.LAST_NF});\n"
    for hs in hint_specs:
        gen, kv = hs
        try:
            code_stmts = [rsparse.strip_comments(s).strip() for s in stmts]
            proof += hintgen.generate(gen, kv, code_stmts, tail_code, d)
        except (exprs.ParseError, hintgen.HintError) as e:
            raise GenError(f"hint generator `{gen}` cannot read {d['fn']} ({d.get('impl','')}): {e}")
    proof += tailproof
    if vacuity:
        proof += '\n        assert(false); // VACUITY-PROBE\n'
    out = []
    out.append(f"    // ---- extracted verbatim from {d['file']}:{f['line0']}-{f['line1']} sha256={f['sha256'][:16]} ----\n")
    out.append('    ' + sig.strip() + '\n')
    if contract.strip():
        out.append(contract.rstrip() + '\n')
    out.append('    {')
    if d.get('_prologue'):
        out.append('\n' + d['_prologue'])
    body = ';'.join(new_stmts)
    if new_stmts:
        body += ';'
    out.append(body)
    if tail_code:
        out.append(f'\n        let __r = {tail.strip()};\n')
        if proof.strip():
            out.append('        proof {\n' + proof + '\n        }\n')
        out.append('        __r\n')
    else:
        if proof.strip():
            out.append('\n        proof {\n' + proof + '\n        }\n')
    out.append('    }\n')
    meta = {
        'file': d['file'], 'impl': d.get('impl'), 'mod': d.get('mod'), 'fn': d['fn'],
        'lines': [f['line0'], f['line1']], 'sha256': f['sha256'],
        'desugared': changed + subs_done, 'props': d.get('props', '').split(',') if d.get('props') else [],
    }
    return ''.join(out), meta


def check_trait(src_root, d, following_text):
    path = os.path.join(src_root, d['file'])
    S = rsparse.Source(path)
    hits = [b for b in S.blocks(r'trait\b') if re.match(r'(pub )?trait ' + re.escape(d['name']) + r'\b', b[0])]
    if not hits:
        raise GenError(f"anchor lost: trait {d['name']} not found in {d['file']}")
    _, ob, cb, _ = hits[0]
    body = rsparse.strip_comments(S.text[ob + 1:cb])
    norm = lambda s: re.sub(r'\s+', '', s)
    tmpl = norm(re.sub(r'->\s*\(\w+:\s*([^)]+)\)', r'-> \1', rsparse.strip_comments(following_text)))
    for m in re.finditer(r'fn\s+\w+\s*\([^)]*\)\s*(->\s*[^;{]+)?', body):
        sig = norm(m.group(0))
        if sig not in tmpl:
            raise GenError(f"trait {d['name']}: repository method `{m.group(0).strip()}` has no counterpart in the template")
    for m in re.finditer(r'type\s+\w+\s*;', body):
        if norm(m.group(0)) not in tmpl:
            raise GenError(f"trait {d['name']}: associated `{m.group(0)}` missing in the template")


FLOAT_LIT = re.compile(r'(?<![\w.])(\d[\d_]*\.\d[\d_]*(?:[eE][+-]?\d+)?|\d[\d_]*[eE][+-]?\d+)(?:_?f64)?(?![\w.])')


def check_struct(src_root, d, following_lines):
    """The template's struct declaration must equal the repository's (attributes/comments/whitespace aside)."""
    path = os.path.join(src_root, d['file'])
    src = rsparse.strip_comments(open(path).read())
    m = re.search(r'pub struct ' + re.escape(d['name']) + r'\b[^;{]*(\{[^}]*\}|;)', src)
    if not m:
        raise GenError(f"anchor lost: struct {d['name']} not found in {d['file']}")
    # keep the struct text up to `;` (tuple struct) or the closing brace
    norm = lambda t: re.sub(r'\s+', '', re.sub(r'///[^\n]*', '', t)).rstrip(',').replace(',}', '}')
    repo = norm(m.group(0))
    tm = re.search(r'pub struct ' + re.escape(d['name']) + r'\b[^;{]*(\{[^}]*\}|;)', rsparse.strip_comments('\n'.join(following_lines)))
    if tm and d.get('pubfields'):
        # the template makes the (private) fields `pub` so that contracts may mention them; nothing else may differ
        tnorm = norm(re.sub(r'(?m)^(\s*)pub\s+(\w+\s*:)', r'\1\2', tm.group(0)))
        if tnorm == repo:
            return
    if not tm or norm(tm.group(0)) != repo:
        raise GenError(f"struct {d['name']}: template declaration differs from {d['file']}: repo `{repo}` vs template `{norm(tm.group(0)) if tm else None}`")


def literal_axioms(bodies):
    """One axiom per float literal occurring in the extracted bodies: the literal denotes the
    IEEE double nearest to the decimal text (Python's float() and rustc agree: both round
    correctly), whose exact rational value is stated."""
    from fractions import Fraction
    lits = {}
    for b in bodies:
        code = rsparse.strip_comments(b)
        for m in FLOAT_LIT.finditer(code):
            t = m.group(1).replace('_', '')
            lits[float(t)] = t
    out = ['    #[verifier::allow(broadcast_without_trigger)]', '    pub mod lits {', '    use vstd::prelude::*;', '    use super::fm::*;', '    verus! {']
    names = []
    for k, (v, t) in enumerate(sorted(lits.items())):
        fr = Fraction(v)
        for sign, nm in ((1, f'lit_{k}'), (-1, f'lit_m{k}')):
            if sign == -1 and v == 0.0:
                continue
            f2 = fr * sign
            txt = ('-' if sign < 0 else '') + t + 'f64'
            rt = f'{f2.numerator}real' if f2.denominator == 1 else f'({f2.numerator}real / {f2.denominator}real)'
            out.append(f'    pub broadcast axiom fn {nm}() ensures fin({txt}), !nan({txt}), rv({txt}) == {rt}, ord({txt}) == {rt};')
            names.append(nm)
    out.append('    pub broadcast group literals { ' + ', '.join(names) + ' }')
    out.append('    }')
    out.append('    }')
    return '\n'.join(out) + '\n', sorted(lits.values())


def generate(template_path, src_root, out_path, vacuity=False):
    tdir = os.path.dirname(os.path.abspath(template_path))

    def load(path):
        ls = []
        for ln in open(path).read().split('\n'):
            if ln.strip().startswith('//@include'):
                ls.extend(load(os.path.join(tdir, ln.strip().split()[1])))
            else:
                ls.append(ln)
        return ls

    lines = load(template_path)
    segs = []   # [text, meta|None|'LITS']
    bodies = []
    i = 0
    while i < len(lines):
        ln = lines[i]
        st = ln.strip()
        if st.startswith('//@extract'):
            d = parse_kv(st[len('//@extract'):])
            i += 1
            contract, tailproof, hint_specs = '', '', []
            mode = None
            while i < len(lines) and lines[i].strip() != '//@end':
                s2 = lines[i].strip()
                if s2.startswith('//@contract'):
                    mode = 'c'
                elif s2.startswith('//@preproof'):
                    mode = 'p'
                elif s2.startswith('//@tailproof'):
                    mode = 't'
                elif s2.startswith('//@prologue'):
                    mode = 'g'
                elif s2.startswith('//@hints'):
                    toks = s2[len('//@hints'):].strip().split(None, 1)
                    hint_specs.append((toks[0], parse_kv(toks[1] if len(toks) > 1 else '')))
                elif s2.startswith('//@subblock '):
                    a_ = s2[len('//@subblock '):].strip()
                    buf_ = []
                    i += 1
                    while lines[i].strip() != '//@endsub':
                        buf_.append(lines[i])
                        i += 1
                    d.setdefault('_subs', []).append((a_, '\n'.join(buf_)))
                elif s2.startswith('//@subspan '):
                    a_, e_ = s2[len('//@subspan '):].split(' ...... ')
                    msha = re.search(r'\s+sha=([0-9a-f]+)\s*$', e_)
                    if msha:
                        e_ = e_[:msha.start()]
                        d.setdefault('_spansha', {})[(a_.strip(), e_.strip())] = msha.group(1)
                    buf_ = []
                    i += 1
                    while lines[i].strip() != '//@endsub':
                        buf_.append(lines[i])
                        i += 1
                    d.setdefault('_subs', []).append(((a_.strip(), e_.strip()), '\n'.join(buf_)))
                elif s2.startswith('//@afterlet '):
                    nm_ = s2[len('//@afterlet '):].strip()
                    buf_ = []
                    i += 1
                    while lines[i].strip() != '//@endsub':
                        buf_.append(lines[i])
                        i += 1
                    d.setdefault('_subs', []).append((('@afterlet', nm_), '\n'.join(buf_)))
                elif s2.startswith('//@closure-spec '):
                    # rule 16: `//@closure-spec |i| usize usize` - the (single) closure `|i| EXPR` gets its own body as contract
                    hd_, pty_, rty_ = s2[len('//@closure-spec '):].rsplit(' ', 2)
                    d.setdefault('_subs', []).append((('@closurespec', hd_.strip(), pty_, rty_), ''))
                elif s2.startswith('//@sub '):
                    a_, b_ = s2[len('//@sub '):].split(' =====> ')
                    d.setdefault('_subs', []).append((a_.strip(), b_.strip()))
                elif mode == 'c':
                    contract += lines[i] + '\n'
                elif mode == 'p':
                    d['_preproof'] = d.get('_preproof', '') + lines[i] + '\n'
                elif mode == 't':
                    tailproof += lines[i] + '\n'
                elif mode == 'g':
                    d['_prologue'] = d.get('_prologue', '') + lines[i] + '\n'
                i += 1
            if i >= len(lines):
                raise GenError('template: //@extract without //@end')
            i += 1
            text, meta = build_fn(src_root, d, contract, hint_specs, tailproof, vacuity)
            name = (d.get('impl') or ('mod ' + d['mod'] if 'mod' in d else d['file'])) + ' :: ' + d['fn']
            meta['obligation'] = name
            segs.append([text, meta])
            if not meta.get('assumed'):
                bodies.append(text)
            continue
        if st.startswith('//@trait'):
            d = parse_kv(st[len('//@trait'):])
            j = i + 1
            buf = []
            while j < len(lines) and not lines[j].startswith('}'):
                buf.append(lines[j])
                j += 1
            check_trait(src_root, d, '\n'.join(buf))
            i += 1
            continue
        if st.startswith('//@struct'):
            d = parse_kv(st[len('//@struct'):])
            check_struct(src_root, d, lines[i + 1:i + 12])
            i += 1
            continue
        if st.startswith('//@assume-lemma'):
            d = parse_kv(st[len('//@assume-lemma'):])
            src = open(os.path.join(tdir, d['file'])).read()
            m = re.search(r'(?m)^pub proof fn ' + re.escape(d['name']) + r'\b.*?\n\{\n', src, re.S)
            if not m:
                raise GenError(f"assume-lemma: {d['name']} not found in {d['file']}")
            sig = m.group(0)[:-2].rstrip()
            segs.append([f"// ---- statement copied mechanically from {d['file']} (proved there, assumed here) ----\n#[verifier::external_body]\n{sig}\n{{ }}\n", None])
            i += 1
            continue
        if st.startswith('//@assume-spec') or st.startswith('//@same-spec'):
            # a spec function of another unit: copied mechanically (assume-spec) or compared with this template's own definition (same-spec)
            copy = st.startswith('//@assume-spec')
            d = parse_kv(st[len('//@assume-spec' if copy else '//@same-spec'):])
            rx = r'(?m)^pub open spec fn ' + re.escape(d['name']) + r'\b.*?\n?\}\s*$'
            src = open(os.path.join(tdir, d['file'])).read()
            m = re.search(rx, src, re.S | re.M)
            if not m:
                raise GenError(f"assume-spec: {d['name']} not found in {d['file']}")
            # shortest match up to the first line that closes the function (definitions here are one-liners or end with a line `}`)
            text = m.group(0)
            first = re.search(r'(?m)^pub open spec fn ' + re.escape(d['name']) + r'\b[^\n]*\{[^\n]*\}\s*$', src)
            if first:
                text = first.group(0)
            else:
                text = src[m.start():src.index('\n}', m.start()) + 2]
            if copy:
                segs.append([f"// ---- definition copied mechanically from {d['file']} ----\n{text}\n", None])
            else:
                mine = '\n'.join(lines)
                m2 = re.search(r'(?m)^pub open spec fn ' + re.escape(d['name']) + r'\b', mine)
                if not m2:
                    raise GenError(f"same-spec: {d['name']} not defined in this template")
                one = re.match(r'[^\n]*\{[^\n]*\}\s*$', mine[m2.start():].split('\n')[0])
                my = mine[m2.start():].split('\n')[0] if one else mine[m2.start():mine.index('\n}', m2.start()) + 2]
                nz = lambda t: re.sub(r'\s+', ' ', t).strip()
                if nz(my) != nz(text):
                    raise GenError(f"same-spec: definition of {d['name']} differs from {d['file']}: `{nz(my)}` vs `{nz(text)}`")
            i += 1
            continue
        if st.startswith('//@ringlemma'):
            d = parse_kv(st[len('//@ringlemma'):])
            try:
                txt = hintgen.gen_ring_lemma(d['name'], d['vars'].split(','), d['lhs'], d['rhs'])
            except (exprs.ParseError, hintgen.HintError) as e:
                raise GenError(f"ring lemma {d.get('name')}: {e}")
            segs.append([txt, None])
            i += 1
            continue
        if st.startswith('//@literals'):
            segs.append(['', 'LITS'])
            i += 1
            continue
        segs.append([ln + '\n', None])
        i += 1
    lit_list = []
    for sg in segs:
        if sg[1] == 'LITS':
            sg[0], lit_list = literal_axioms(bodies)
            sg[1] = None
    metas = []
    cur = 1
    out = []
    for text, meta in segs:
        if meta is not None:
            meta['gen_lines'] = [cur, cur + text.count('\n') - 1]
            metas.append(meta)
        out.append(text)
        cur += text.count('\n')
    open(out_path, 'w').write(''.join(out))
    return metas, lit_list


if __name__ == '__main__':
    import argparse
    ap = argparse.ArgumentParser()
    ap.add_argument('template')
    ap.add_argument('--src-root', default='/repo')
    ap.add_argument('--out', required=True)
    ap.add_argument('--vacuity', action='store_true')
    a = ap.parse_args()
    try:
        metas, lits = generate(a.template, a.src_root, a.out, a.vacuity)
    except GenError as e:
        print('GENERATION-FAILED:', e)
        sys.exit(2)
    print(json.dumps(metas, indent=1))
