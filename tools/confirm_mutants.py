#!/usr/bin/env python3
"""Confirm every candidate change produced by the independent sub-agents (under /tmp/mut/out/<prop>/m<k>/):
patch applies to /repo HEAD, the crate's own test-suite still passes with it, the demonstration fails with it and passes
without it.  Confirmed changes are stored as /verif/seeded/<prop>-m<k>/{patch.diff, demo.rs, meta.json}."""
import os, re, sys, json, glob, shutil, subprocess
WT = '/tmp/confirm-wt'
TGT = '/tmp/confirm-target'
ENV = dict(os.environ, CARGO_NET_OFFLINE='true', CARGO_TARGET_DIR=TGT)


def sh(cmd, cwd=WT, timeout=900):
    p = subprocess.run(cmd, cwd=cwd, shell=True, capture_output=True, text=True, env=ENV, timeout=timeout)
    return p.returncode, p.stdout + p.stderr


def main():
    only = [a for a in sys.argv[1:] if not a.startswith('--')]
    src_dir = next((a.split('=', 1)[1] for a in sys.argv[1:] if a.startswith('--src=')), '/tmp/mut/out')
    tag = next((a.split('=', 1)[1] for a in sys.argv[1:] if a.startswith('--tag=')), '')
    if not os.path.isdir(WT):
        subprocess.run(['git', '-C', '/repo', 'worktree', 'add', '-q', '--detach', WT, 'HEAD'], check=True)
    head = subprocess.run(['git', '-C', '/repo', 'rev-parse', '--short', 'HEAD'], capture_output=True, text=True).stdout.strip()
    for d in sorted(glob.glob(src_dir + '/C*/m*')):
        prop = d.split('/')[-2]
        mid = f"{prop}-{tag}{d.split('/')[-1]}"
        if only and mid not in only and prop not in only:
            continue
        patch, demo = os.path.join(d, 'patch.diff'), os.path.join(d, 'demo.rs')
        if not (os.path.exists(patch) and os.path.exists(demo)):
            print(mid, 'SKIP (missing files)'); continue
        notes = open(os.path.join(d, 'notes.md')).read() if os.path.exists(os.path.join(d, 'notes.md')) else ''
        feat = '--features borsh' if 'compile_error' in open(demo).read() or '--features borsh' in notes else ''
        sh('git checkout -q -- . && rm -rf tests')
        os.makedirs(os.path.join(WT, 'tests'), exist_ok=True)
        shutil.copy(demo, os.path.join(WT, 'tests', 'demo.rs'))
        rc0, out0 = sh(f'cargo test --offline {feat} --test demo 2>&1 | tail -15')
        demo_passes_without = 'test result: ok' in out0
        rc, outa = sh(f'git apply {patch}')
        applies = rc == 0
        rc1, out1 = sh(f'cargo test --offline {feat} --lib 2>&1 | tail -5')
        m = re.search(r'test result: (\w+)\. (\d+) passed; (\d+) failed', out1)
        suite_ok = bool(m and m.group(1) == 'ok' and int(m.group(2)) >= 94)
        rc2, out2 = sh(f'cargo test --offline {feat} --test demo 2>&1 | tail -25')
        demo_fails_with = ('test result: FAILED' in out2) or ('panicked' in out2 and 'test result: ok' not in out2)
        ok = applies and suite_ok and demo_fails_with and demo_passes_without
        meta = {
            'id': mid, 'breaks_property': prop, 'repo_head': head,
            'summary': next((l.strip('# ').strip() for l in notes.split('\n') if l.strip()), ''),
            'needs_to_manifest': ' '.join(l.strip() for l in notes.split('\n') if re.search(r'need|manifest|only when|only for|requires', l, re.I))[:600],
            'confirmed': ok,
            'what_was_run': {
                'scratch_worktree': WT + ' (git worktree of /repo HEAD, removed afterwards)',
                'demo_without_change': {'cmd': f'cargo test --offline {feat} --test demo', 'passes': demo_passes_without, 'tail': out0[-300:]},
                'patch_applies': applies,
                'suite_with_change': {'cmd': f'cargo test --offline {feat} --lib', 'ok': suite_ok, 'tail': out1[-200:]},
                'demo_with_change': {'cmd': f'cargo test --offline {feat} --test demo', 'fails': demo_fails_with, 'tail': out2[-600:]},
            },
        }
        print(mid, 'CONFIRMED' if ok else f'REJECTED applies={applies} suite_ok={suite_ok} demo_fails_with={demo_fails_with} demo_passes_without={demo_passes_without}', flush=True)
        if ok:
            out = f'/verif/seeded/{mid}'
            os.makedirs(out, exist_ok=True)
            shutil.copy(patch, os.path.join(out, 'patch.diff'))
            shutil.copy(demo, os.path.join(out, 'demo.rs'))
            if notes:
                open(os.path.join(out, 'notes.md'), 'w').write(notes)
            json.dump(meta, open(os.path.join(out, 'meta.json'), 'w'), indent=1)
    sh('git checkout -q -- . && rm -rf tests')


if __name__ == '__main__':
    main()
