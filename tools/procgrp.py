"""Run a command in its own session/process group; on timeout kill that group only (never other checks' solver processes)."""
import os, signal, subprocess


def run(cmd, timeout, **kw):
    """Returns (stdout, stderr, returncode, timed_out)."""
    p = subprocess.Popen(cmd, stdout=subprocess.PIPE, stderr=subprocess.PIPE, text=True, start_new_session=True, **kw)
    try:
        out, err = p.communicate(timeout=timeout)
        return out, err, p.returncode, False
    except subprocess.TimeoutExpired:
        try:
            os.killpg(p.pid, signal.SIGKILL)
        except ProcessLookupError:
            pass
        try:
            out, err = p.communicate(timeout=30)
        except Exception:
            out, err = '', ''
        return out or '', err or '', -1, True
