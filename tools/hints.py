"""Proof-hint generators.  Each takes the statements of an extracted straight-line body and
produces Verus proof text (assertions and lemma calls).  The hints are *checked* by Verus; the
generators are untrusted.  sympy is used only to predict the normal form to assert.
"""
import re
import exprs


class HintError(Exception):
    pass


def _sym():
    try:
        import sympy
    except ImportError:
        raise HintError('sympy is not importable (run the check with python3-vt)')
    return sympy


def poly_text(p, gens_text, X=None, pwname='pw'):
    """Render a sympy expression that is polynomial in the symbols of gens_text (dict Symbol->text)
    and in X (rendered through power atoms pw(X,k)) as Verus real text."""
    sympy = _sym()
    gens = list(gens_text.keys())
    allg = gens + ([X] if X is not None else [])
    if not allg:
        poly_terms = [((), sympy.nsimplify(p))]
    else:
        P = sympy.Poly(sympy.expand(p), *allg)
        poly_terms = P.terms()
    out = []
    for mon, coef in poly_terms:
        coef = sympy.Rational(coef)
        if coef == 0:
            continue
        factors = []
        for g, e in zip(allg, mon):
            if e == 0:
                continue
            if X is not None and g == X:
                factors.append(f'{pwname}(X, {e}nat)')
            else:
                factors.extend([gens_text[g]] * e)
        num, den = abs(coef.p), coef.q
        c = f'{num}real' if den == 1 else f'({num}real / {den}real)'
        if factors and num == 1 and den == 1:
            body = ' * '.join(factors)
        else:
            body = ' * '.join([c] + factors)
        out.append(('-' if coef < 0 else '+', body))
    if not out:
        return '0real'
    s = ''
    for i, (sg, b) in enumerate(out):
        if i == 0:
            s = ('-' if sg == '-' else '') + b
        else:
            s += f' {sg} {b}'
    return s


def gen_polyeval(kv, stmts, tail, d):
    """Hints for a straight-line float kernel that is polynomial in one designated argument.

    kv: x=<place of the argument> [atoms=a,b: let-names treated as opaque] [skip=n] [tailname=__r]
        [calls=path..f:spec_fn]
    Every `let` (and every nested product inside it) is re-asserted in the normal form
        sum_k coef_k * pw(X,k)
    through tiny steps: per-monomial product facts (a_i*b_j == m_ij from pw(X,i)*pw(X,j)==pw(X,i+j)),
    one product expansion per multiplication, then linear arithmetic.
    """
    sympy = _sym()
    xplace = kv.get('x', 'x')
    tailname = kv.get('tailname', '__r')
    exprs.CALLMAP = {}
    for p in kv.get('calls', '').split(','):
        if p:
            k_, v_ = p.rsplit(':', 1)
            exprs.CALLMAP[k_.replace('..', '::')] = v_
    opaque = set(kv.get('atoms', '').split(',')) - {''}
    lets = []
    skip = int(kv.get('skip', 0))
    for s in stmts:
        if not s.strip():
            continue
        if skip > 0:
            skip -= 1
            continue
        m = exprs.LET.match(s)
        if not m:
            if re.match(r'^\s*const\s', s):
                mm = re.match(r'^\s*const\s+(\w+)\s*:\s*f64\s*=\s*(.+)$', s.strip(), re.S)
                if mm:
                    lets.append((mm.group(1), exprs.parse_expr(mm.group(2))))
                    continue
            raise HintError(f'statement is not a let: {s[:50]!r}')
        name = m.group('pat').strip()
        try:
            if name in opaque:
                raise exprs.ParseError('declared opaque')
            for nm, ast in exprs.parse_lets([s]):
                lets.append((nm, ast))
        except exprs.ParseError:
            if not re.match(r'^\w+$', name):
                raise
            lets.append((name, None))  # opaque atom
    if tail:
        lets.append((tailname, exprs.parse_expr(tail)))
    X = sympy.Symbol('X')
    symtab = {}      # place -> sympy expr
    atom_text = {}   # Symbol -> verus text
    nf = {}          # let name -> normal form text
    counter = [0]
    alias = {}

    def resolve(place):
        m_ = re.match(r'^(\w+)(.*)$', place)
        if m_ and m_.group(1) in alias:
            return alias[m_.group(1)] + m_.group(2)
        return place

    def sym(place):
        place = resolve(place)
        if place == xplace:
            return X
        if place in symtab:
            return symtab[place]
        counter[0] += 1
        s_ = sympy.Symbol(f'a{counter[0]}')
        symtab[place] = s_
        atom_text[s_] = place[len('@call:'):] if place.startswith('@call:') else f'rv({place})'
        return s_

    out = []
    out.append(f'        let X = rv({xplace});')
    out.append('        lemma_pw01(X);')
    pw_done = set()

    def need_pw(j, k):
        if j > k:
            j, k = k, j
        if j < 1 or (j, k) in pw_done:
            return
        pw_done.add((j, k))
        out.append(f'        lemma_pw_mul(X, {j}nat, {k}nat);')

    def terms(e):
        """list of (degree in X, sympy coefficient-monomial expr) for the expanded polynomial e"""
        gens = [g for g in atom_text.keys()]
        P = sympy.Poly(sympy.expand(e), X, *gens) if gens else sympy.Poly(sympy.expand(e), X)
        res = []
        for mon, coef in P.terms():
            if coef == 0:
                continue
            deg = mon[0]
            rest = sympy.Rational(coef)
            for g, ex in zip(gens, mon[1:]):
                rest = rest * g ** ex
            res.append((deg, rest))
        return res

    def mono_text(deg, rest):
        return poly_text(rest * X ** deg, atom_text, X)

    def nf_text(e):
        return poly_text(e, atom_text, X)

    def rtext(ast):
        return exprs.to_real(ast, resolve=resolve)

    def product(a_ast, b_ast):
        """emit the facts needed to expand rtext(a)*rtext(b); returns the sympy product"""
        ea = sympy.expand(exprs.to_sympy(a_ast, sym))
        eb = sympy.expand(exprs.to_sympy(b_ast, sym))
        ta, tb = terms(ea), terms(eb)
        if not ta or not tb:
            return sympy.Integer(0)
        facts = []
        for (da, ra) in ta:
            for (db, rb) in tb:
                lhs = f'({mono_text(da, ra)}) * ({mono_text(db, rb)})'
                rhs = mono_text(da + db, sympy.expand(ra * rb))
                req = ['pw(X, 1nat) == X', 'pw(X, 0nat) == 1real']
                if da >= 1 and db >= 1:
                    need_pw(da, db)
                    lo, hi = min(da, db), max(da, db)
                    req.append(f'pw(X, {lo}nat) * pw(X, {hi}nat) == pw(X, {da + db}nat)')
                out.append(f'        assert({lhs} == {rhs}) by(nonlinear_arith)\n            requires ' + ', '.join(req) + ';')
                facts.append(f'{lhs} == {rhs}')
        A, B = rtext(a_ast), rtext(b_ast)
        prod = sympy.expand(ea * eb)
        out.append(f'        assert(({A}) * ({B}) == {nf_text(prod)}) by(nonlinear_arith)\n            requires '
                   + f'({A}) == {nf_text(ea)}, ({B}) == {nf_text(eb)},\n                     '
                   + ',\n                     '.join(facts) + ';')
        return prod

    def walk(ast):
        """post-order: make every multiplication inside ast known in normal form"""
        k = ast[0]
        if k in ('paren', 'neg'):
            walk(ast[1])
        elif k == 'bin':
            walk(ast[2])
            walk(ast[3])
            if ast[1] == '*':
                settle(ast[2]); settle(ast[3])
                product(ast[2], ast[3])
        elif k == 'call':
            walk(ast[2])
            for a in ast[3]:
                walk(a)
            if ast[1] == 'mul_add':
                settle(ast[2]); settle(ast[3][0])
                product(ast[2], ast[3][0])

    def settle(ast):
        """assert rtext(ast) == NF(ast) in the outer context (linear once inner products are expanded)"""
        a = exprs.strip_paren(ast)
        if a[0] in ('num',):
            return
        if a[0] == 'place':
            p = resolve(exprs.canon_place(a[1]))
            if p == xplace:
                out.append(f'        assert(rv({p}) == pw(X, 1nat));')
            return
        e = sympy.expand(exprs.to_sympy(ast, sym))
        out.append(f'        assert({rtext(ast)} == {nf_text(e)});')

    for name, ast in lets:
        if ast is None:
            sym(name)
            continue
        if exprs.strip_paren(ast)[0] == 'place':
            alias[name] = resolve(exprs.canon_place(exprs.strip_paren(ast)[1]))
            continue
        e = sympy.expand(exprs.to_sympy(ast, sym))
        if not e.is_polynomial(X):
            raise HintError(f'{name} is not polynomial in {xplace}')
        onestep = rtext(ast)
        out.append(f'        assert(rv({name}) == {onestep});')
        walk(ast)
        nf_t = nf_text(e)
        nf[name] = nf_t
        out.append(f'        assert(rv({name}) == {nf_t});')
        symtab[name] = e
    global LAST_NF
    LAST_NF = nf.get(tailname)
    return '\n'.join(out) + '\n'


def gen_ring_lemma(name, vars_, lhs, rhs):
    """A proof fn `name(vars: real) ensures lhs == rhs` for a polynomial identity with rational coefficients.
    The body normalises both sides bottom-up: one explicit product expansion (sum of monomials times sum of
    monomials) per multiplication node, everything else linear.  Untrusted generator: Verus checks every step."""
    sympy = _sym()
    syms = {v: sympy.Symbol(v) for v in vars_}
    atom_text = {syms[v]: v for v in vars_}

    def sym(place):
        if place not in syms:
            raise HintError(f'unknown variable {place} in ring lemma {name}')
        return syms[place]

    def rt(ast):
        k = ast[0]
        if k == 'paren':
            return '(' + rt(ast[1]) + ')'
        if k == 'num':
            fr = exprs.num_fraction(ast[1])
            return f'{fr.numerator}real' if fr.denominator == 1 else f'({fr.numerator}real / {fr.denominator}real)'
        if k == 'place':
            return ast[1]
        if k == 'neg':
            return f'(-{rt(ast[1])})'
        if k == 'bin':
            return f'({rt(ast[2])} {ast[1]} {rt(ast[3])})'
        raise HintError(f'unsupported node in ring lemma: {ast}')

    def nft(e):
        return poly_text(sympy.expand(e), atom_text)

    out = []

    def mono_pairs(e):
        gens = list(atom_text.keys())
        P = sympy.Poly(sympy.expand(e), *gens)
        res = []
        for mon, coef in P.terms():
            m_ = sympy.Integer(1)
            for g, ex in zip(gens, mon):
                m_ = m_ * g ** ex
            res.append((sympy.Rational(coef), m_))
        return res

    def mono_list(e):
        return [nft(c_ * m_) for c_, m_ in mono_pairs(e)]

    def walk(ast):
        k = ast[0]
        if k in ('paren', 'neg'):
            walk(ast[1])
            if k == 'neg':
                out.append(f'    assert({rt(ast)} == {nft(exprs.to_sympy(ast, sym))});')
            return
        if k == 'bin':
            walk(ast[2])
            walk(ast[3])
            e = sympy.expand(exprs.to_sympy(ast, sym))
            if ast[1] == '*':
                ea = sympy.expand(exprs.to_sympy(ast[2], sym))
                eb = sympy.expand(exprs.to_sympy(ast[3], sym))
                if ea.is_number or eb.is_number:
                    out.append(f'    assert({rt(ast)} == {nft(e)});')
                else:
                    A, B = rt(ast[2]), rt(ast[3])
                    ta, tb = mono_list(ea), mono_list(eb)
                    # distribute one term at a time with lemma_ring_dist (each call is a tiny nonlinear fact)
                    def psum(ts):
                        return ' + '.join(f'({x})' for x in ts)
                    facts = []
                    for k in range(len(ta), 1, -1):
                        f_ = f'(({psum(ta[:k-1])}) + ({ta[k-1]})) * ({psum(tb)}) == ({psum(ta[:k-1])}) * ({psum(tb)}) + ({ta[k-1]}) * ({psum(tb)})'
                        out.append(f'    assert({f_}) by(nonlinear_arith);')
                        facts.append(f_)
                    for a_i in ta:
                        for k in range(len(tb), 1, -1):
                            f_ = f'({a_i}) * (({psum(tb[:k-1])}) + ({tb[k-1]})) == ({a_i}) * ({psum(tb[:k-1])}) + ({a_i}) * ({tb[k-1]})'
                            out.append(f'    assert({f_}) by(nonlinear_arith);')
                            facts.append(f_)
                    for (ca, ma_) in mono_pairs(ea):
                        for (cb, mb_) in mono_pairs(eb):
                            la_, lb_ = nft(ca * ma_), nft(cb * mb_)
                            pr = nft(sympy.expand(ca * ma_ * cb * mb_))
                            f_ = f'({la_}) * ({lb_}) == {pr}'
                            out.append(f'    assert({f_}) by(nonlinear_arith);')
                            facts.append(f_)
                    out.append(f'    assert(({psum(ta)}) * ({psum(tb)}) == {nft(e)}) by(nonlinear_arith)\n        requires ' + ',\n                 '.join(facts) + ';')
                    out.append(f'    assert({A} * {B} == {nft(e)}) by(nonlinear_arith)\n        requires {A} == {psum(ta)}, {B} == {psum(tb)}, ({psum(ta)}) * ({psum(tb)}) == {nft(e)};')
                    out.append(f'    assert({rt(ast)} == {nft(e)});')
            elif ast[1] == '/':
                if not sympy.expand(exprs.to_sympy(ast[3], sym)).is_number:
                    raise HintError('division by a non-literal in ring lemma')
                out.append(f'    assert({rt(ast)} == {nft(e)});')
            else:
                out.append(f'    assert({rt(ast)} == {nft(e)});')

    la, ra = exprs.parse_expr(lhs), exprs.parse_expr(rhs)
    el = sympy.expand(exprs.to_sympy(la, sym))
    er = sympy.expand(exprs.to_sympy(ra, sym))
    if sympy.expand(el - er) != 0:
        raise HintError(f'ring lemma {name}: the two sides are not equal polynomials (difference {sympy.expand(el - er)})')
    walk(la)
    walk(ra)
    params = ', '.join(f'{v}: real' for v in vars_)
    return (f'pub proof fn {name}({params})\n    ensures {rt(la)} == {rt(ra)},\n{{\n' + '\n'.join(out) + '\n}\n')


LAST_NF = None
GENERATORS = {'polyeval': gen_polyeval}


def generate(gen, kv, stmts, tail, d):
    if gen not in GENERATORS:
        raise HintError(f'unknown hint generator {gen}')
    return GENERATORS[gen](kv, stmts, tail, d)
