"""Proof-hint generators.  Each takes the statements of an extracted straight-line body and
produces Verus proof text (assertions and lemma calls).  The hints are *checked* by Verus; the
generators are untrusted.  sympy is used only to predict the normal form to assert.
"""
import re
import exprs


class HintError(Exception):
    pass


def _sym():
    try:
        import sympy
    except ImportError:
        raise HintError('sympy is not importable (run the check with python3-vt)')
    return sympy


def poly_text(p, gens_text, X=None, pwname='pw'):
    """Render a sympy expression that is polynomial in the symbols of gens_text (dict Symbol->text)
    and in X (rendered through power atoms pw(X,k)) as Verus real text."""
    sympy = _sym()
    gens = list(gens_text.keys())
    allg = gens + ([X] if X is not None else [])
    if not allg:
        poly_terms = [((), sympy.nsimplify(p))]
    else:
        P = sympy.Poly(sympy.expand(p), *allg)
        poly_terms = P.terms()
    out = []
    for mon, coef in poly_terms:
        coef = sympy.Rational(coef)
        if coef == 0:
            continue
        factors = []
        for g, e in zip(allg, mon):
            if e == 0:
                continue
            if X is not None and g == X:
                factors.append(f'{pwname}(X, {e}nat)')
            else:
                factors.extend([gens_text[g]] * e)
        num, den = abs(coef.p), coef.q
        c = f'{num}real' if den == 1 else f'({num}real / {den}real)'
        if factors and num == 1 and den == 1:
            body = ' * '.join(factors)
        else:
            body = ' * '.join([c] + factors)
        out.append(('-' if coef < 0 else '+', body))
    if not out:
        return '0real'
    s = ''
    for i, (sg, b) in enumerate(out):
        if i == 0:
            s = ('-' if sg == '-' else '') + b
        else:
            s += f' {sg} {b}'
    return s


def gen_polyeval(kv, stmts, tail, d):
    """Hints for a straight-line float kernel that is polynomial in one designated argument.

    kv: x=<place of the argument> [atoms=a,b: let-names treated as opaque] [skip=n] [tailname=__r]
        [calls=path..f:spec_fn]
    Every `let` (and every nested product inside it) is re-asserted in the normal form
        sum_k coef_k * pw(X,k)
    through tiny steps: per-monomial product facts (a_i*b_j == m_ij from pw(X,i)*pw(X,j)==pw(X,i+j)),
    one product expansion per multiplication, then linear arithmetic.
    """
    sympy = _sym()
    xplace = kv.get('x', 'x')
    tailname = kv.get('tailname', '__r')
    exprs.CALLMAP = {}
    for p in kv.get('calls', '').split(','):
        if p:
            k_, v_ = p.rsplit(':', 1)
            exprs.CALLMAP[k_.replace('..', '::')] = v_
    opaque = set(kv.get('atoms', '').split(',')) - {''}
    lets = []
    skip = int(kv.get('skip', 0))
    for s in stmts:
        if not s.strip():
            continue
        if skip > 0:
            skip -= 1
            continue
        m = exprs.LET.match(s)
        if not m:
            if re.match(r'^\s*const\s', s):
                mm = re.match(r'^\s*const\s+(\w+)\s*:\s*f64\s*=\s*(.+)$', s.strip(), re.S)
                if mm:
                    lets.append((mm.group(1), exprs.parse_expr(mm.group(2))))
                    continue
            raise HintError(f'statement is not a let: {s[:50]!r}')
        name = m.group('pat').strip()
        try:
            if name in opaque:
                raise exprs.ParseError('declared opaque')
            for nm, ast in exprs.parse_lets([s]):
                lets.append((nm, ast))
        except exprs.ParseError:
            if not re.match(r'^\w+$', name):
                raise
            lets.append((name, None))  # opaque atom
    if tail:
        lets.append((tailname, exprs.parse_expr(tail)))
    X = sympy.Symbol('X')
    symtab = {}      # place -> sympy expr
    atom_text = {}   # Symbol -> verus text
    nf = {}          # let name -> normal form text
    counter = [0]
    alias = {}

    def resolve(place):
        m_ = re.match(r'^(\w+)(.*)$', place)
        if m_ and m_.group(1) in alias:
            return alias[m_.group(1)] + m_.group(2)
        return place

    def sym(place):
        place = resolve(place)
        if place == xplace:
            return X
        if place in symtab:
            return symtab[place]
        counter[0] += 1
        s_ = sympy.Symbol(f'a{counter[0]}')
        symtab[place] = s_
        atom_text[s_] = place[len('@call:'):] if place.startswith('@call:') else f'rv({place})'
        return s_

    out = []
    out.append(f'        let X = rv({xplace});')
    out.append('        lemma_pw01(X);')
    pw_done = set()

    def need_pw(j, k):
        if j > k:
            j, k = k, j
        if j < 1 or (j, k) in pw_done:
            return
        pw_done.add((j, k))
        out.append(f'        lemma_pw_mul(X, {j}nat, {k}nat);')

    def terms(e):
        """list of (degree in X, sympy coefficient-monomial expr) for the expanded polynomial e"""
        gens = [g for g in atom_text.keys()]
        P = sympy.Poly(sympy.expand(e), X, *gens) if gens else sympy.Poly(sympy.expand(e), X)
        res = []
        for mon, coef in P.terms():
            if coef == 0:
                continue
            deg = mon[0]
            rest = sympy.Rational(coef)
            for g, ex in zip(gens, mon[1:]):
                rest = rest * g ** ex
            res.append((deg, rest))
        return res

    def mono_text(deg, rest):
        return poly_text(rest * X ** deg, atom_text, X)

    def nf_text(e):
        return poly_text(e, atom_text, X)

    def rtext(ast):
        return exprs.to_real(ast, resolve=resolve)

    def product(a_ast, b_ast):
        """emit the facts needed to expand rtext(a)*rtext(b); returns the sympy product"""
        ea = sympy.expand(exprs.to_sympy(a_ast, sym))
        eb = sympy.expand(exprs.to_sympy(b_ast, sym))
        ta, tb = terms(ea), terms(eb)
        if not ta or not tb:
            return sympy.Integer(0)
        facts = []
        for (da, ra) in ta:
            for (db, rb) in tb:
                lhs = f'({mono_text(da, ra)}) * ({mono_text(db, rb)})'
                rhs = mono_text(da + db, sympy.expand(ra * rb))
                req = ['pw(X, 1nat) == X', 'pw(X, 0nat) == 1real']
                if da >= 1 and db >= 1:
                    need_pw(da, db)
                    lo, hi = min(da, db), max(da, db)
                    req.append(f'pw(X, {lo}nat) * pw(X, {hi}nat) == pw(X, {da + db}nat)')
                out.append(f'        assert({lhs} == {rhs}) by(nonlinear_arith)\n            requires ' + ', '.join(req) + ';')
                facts.append(f'{lhs} == {rhs}')
        A, B = rtext(a_ast), rtext(b_ast)
        prod = sympy.expand(ea * eb)
        out.append(f'        assert(({A}) * ({B}) == {nf_text(prod)}) by(nonlinear_arith)\n            requires '
                   + f'({A}) == {nf_text(ea)}, ({B}) == {nf_text(eb)},\n                     '
                   + ',\n                     '.join(facts) + ';')
        return prod

    def walk(ast):
        """post-order: make every multiplication inside ast known in normal form"""
        k = ast[0]
        if k in ('paren', 'neg'):
            walk(ast[1])
        elif k == 'bin':
            walk(ast[2])
            walk(ast[3])
            if ast[1] == '*':
                settle(ast[2]); settle(ast[3])
                product(ast[2], ast[3])
        elif k == 'call':
            walk(ast[2])
            for a in ast[3]:
                walk(a)
            if ast[1] == 'mul_add':
                settle(ast[2]); settle(ast[3][0])
                product(ast[2], ast[3][0])

    def settle(ast):
        """assert rtext(ast) == NF(ast) in the outer context (linear once inner products are expanded)"""
        a = exprs.strip_paren(ast)
        if a[0] in ('num',):
            return
        if a[0] == 'place':
            p = resolve(exprs.canon_place(a[1]))
            if p == xplace:
                out.append(f'        assert(rv({p}) == pw(X, 1nat));')
            return
        e = sympy.expand(exprs.to_sympy(ast, sym))
        out.append(f'        assert({rtext(ast)} == {nf_text(e)});')

    for name, ast in lets:
        if ast is None:
            sym(name)
            continue
        if exprs.strip_paren(ast)[0] == 'place':
            alias[name] = resolve(exprs.canon_place(exprs.strip_paren(ast)[1]))
            continue
        e = sympy.expand(exprs.to_sympy(ast, sym))
        if not e.is_polynomial(X):
            raise HintError(f'{name} is not polynomial in {xplace}')
        onestep = rtext(ast)
        out.append(f'        assert(rv({name}) == {onestep});')
        walk(ast)
        nf_t = nf_text(e)
        nf[name] = nf_t
        out.append(f'        assert(rv({name}) == {nf_t});')
        symtab[name] = e
    global LAST_NF
    LAST_NF = nf.get(tailname)
    return '\n'.join(out) + '\n'


def gen_ring_lemma(name, vars_, lhs, rhs):
    """A proof fn `name(vars: real) ensures lhs == rhs` for a polynomial identity with rational coefficients.
    The body normalises both sides bottom-up: one explicit product expansion (sum of monomials times sum of
    monomials) per multiplication node, everything else linear.  Untrusted generator: Verus checks every step."""
    sympy = _sym()
    syms = {v: sympy.Symbol(v) for v in vars_}
    atom_text = {syms[v]: v for v in vars_}

    def sym(place):
        if place not in syms:
            raise HintError(f'unknown variable {place} in ring lemma {name}')
        return syms[place]

    def rt(ast):
        k = ast[0]
        if k == 'paren':
            return '(' + rt(ast[1]) + ')'
        if k == 'num':
            fr = exprs.num_fraction(ast[1])
            return f'{fr.numerator}real' if fr.denominator == 1 else f'({fr.numerator}real / {fr.denominator}real)'
        if k == 'place':
            return ast[1]
        if k == 'neg':
            return f'(-{rt(ast[1])})'
        if k == 'bin':
            return f'({rt(ast[2])} {ast[1]} {rt(ast[3])})'
        raise HintError(f'unsupported node in ring lemma: {ast}')

    def nft(e):
        return poly_text(sympy.expand(e), atom_text)

    out = []

    def mono_pairs(e):
        gens = list(atom_text.keys())
        P = sympy.Poly(sympy.expand(e), *gens)
        res = []
        for mon, coef in P.terms():
            m_ = sympy.Integer(1)
            for g, ex in zip(gens, mon):
                m_ = m_ * g ** ex
            res.append((sympy.Rational(coef), m_))
        return res

    def mono_list(e):
        return [nft(c_ * m_) for c_, m_ in mono_pairs(e)]

    def walk(ast):
        k = ast[0]
        if k in ('paren', 'neg'):
            walk(ast[1])
            if k == 'neg':
                out.append(f'    assert({rt(ast)} == {nft(exprs.to_sympy(ast, sym))});')
            return
        if k == 'bin':
            walk(ast[2])
            walk(ast[3])
            e = sympy.expand(exprs.to_sympy(ast, sym))
            if ast[1] == '*':
                ea = sympy.expand(exprs.to_sympy(ast[2], sym))
                eb = sympy.expand(exprs.to_sympy(ast[3], sym))
                if ea.is_number or eb.is_number:
                    out.append(f'    assert({rt(ast)} == {nft(e)});')
                else:
                    A, B = rt(ast[2]), rt(ast[3])
                    ta, tb = mono_list(ea), mono_list(eb)
                    # distribute one term at a time with lemma_ring_dist (each call is a tiny nonlinear fact)
                    def psum(ts):
                        return ' + '.join(f'({x})' for x in ts)
                    facts = []
                    for k in range(len(ta), 1, -1):
                        f_ = f'(({psum(ta[:k-1])}) + ({ta[k-1]})) * ({psum(tb)}) == ({psum(ta[:k-1])}) * ({psum(tb)}) + ({ta[k-1]}) * ({psum(tb)})'
                        out.append(f'    assert({f_}) by(nonlinear_arith);')
                        facts.append(f_)
                    for a_i in ta:
                        for k in range(len(tb), 1, -1):
                            f_ = f'({a_i}) * (({psum(tb[:k-1])}) + ({tb[k-1]})) == ({a_i}) * ({psum(tb[:k-1])}) + ({a_i}) * ({tb[k-1]})'
                            out.append(f'    assert({f_}) by(nonlinear_arith);')
                            facts.append(f_)
                    for (ca, ma_) in mono_pairs(ea):
                        for (cb, mb_) in mono_pairs(eb):
                            la_, lb_ = nft(ca * ma_), nft(cb * mb_)
                            pr = nft(sympy.expand(ca * ma_ * cb * mb_))
                            f_ = f'({la_}) * ({lb_}) == {pr}'
                            out.append(f'    assert({f_}) by(nonlinear_arith);')
                            facts.append(f_)
                    out.append(f'    assert(({psum(ta)}) * ({psum(tb)}) == {nft(e)}) by(nonlinear_arith)\n        requires ' + ',\n                 '.join(facts) + ';')
                    out.append(f'    assert({A} * {B} == {nft(e)}) by(nonlinear_arith)\n        requires {A} == {psum(ta)}, {B} == {psum(tb)}, ({psum(ta)}) * ({psum(tb)}) == {nft(e)};')
                    out.append(f'    assert({rt(ast)} == {nft(e)});')
            elif ast[1] == '/':
                if not sympy.expand(exprs.to_sympy(ast[3], sym)).is_number:
                    raise HintError('division by a non-literal in ring lemma')
                out.append(f'    assert({rt(ast)} == {nft(e)});')
            else:
                out.append(f'    assert({rt(ast)} == {nft(e)});')

    la, ra = exprs.parse_expr(lhs), exprs.parse_expr(rhs)
    el = sympy.expand(exprs.to_sympy(la, sym))
    er = sympy.expand(exprs.to_sympy(ra, sym))
    if sympy.expand(el - er) != 0:
        raise HintError(f'ring lemma {name}: the two sides are not equal polynomials (difference {sympy.expand(el - er)})')
    walk(la)
    walk(ra)
    params = ', '.join(f'{v}: real' for v in vars_)
    return (f'pub proof fn {name}({params})\n    ensures {rt(la)} == {rt(ra)},\n{{\n' + '\n'.join(out) + '\n}\n')


def gen_polyerr(kv, stmts, tail, d):
    """Rounding-error hints (standard model) for a straight-line kernel built from `*` and `mul_add` that is polynomial in one
    argument.  For every float value v it maintains  |rv(v) - E_v| <= g(k_v) * M_v  and  |E_v| <= M_v  with E_v the exact
    polynomial (normal form in pw(X,.)), M_v the same polynomial over |coefficients| and |X|, k_v a roundoff count, by one
    call of lemma_fma_step / lemma_mul_step per operation.  kv: x=<argument place>  n=<number of coefficients>."""
    sympy = _sym()
    xplace = kv.get('x', 'x')
    tailname = kv.get('tailname', '__r')
    lets = []
    for s_ in stmts:
        if not s_.strip():
            continue
        for nm, ast in exprs.parse_lets([s_]):
            lets.append((nm, ast))
    if tail:
        lets.append((tailname, exprs.parse_expr(tail)))
    X, AX = sympy.Symbol('X'), sympy.Symbol('AX')
    atomE, atomM = {}, {}          # sympy symbol -> text
    symE, symM = {}, {}            # place -> sympy symbols
    info = {}                      # float-term text -> (E, M, k)
    alias = {}
    counter = [0]
    out = []
    out.append(f'        let X = rv({xplace});')
    out.append('        let AX = ab(X);')
    out.append('        lemma_pw01(X); lemma_pw01(AX); lemma_atom_x(X);')
    pw_done = set()

    def resolve(place):
        m_ = re.match(r'^(\w+)(.*)$', place)
        if m_ and m_.group(1) in alias:
            return alias[m_.group(1)] + m_.group(2)
        return place

    def need_pw(j, k):
        if j > k:
            j, k = k, j
        if j < 1 or (j, k) in pw_done:
            return
        pw_done.add((j, k))
        out.append(f'        lemma_pw_mul(X, {j}nat, {k}nat); lemma_pw_mul(AX, {j}nat, {k}nat);')

    def textE(e):
        return poly_text(e, atomE, X)

    def textM(e):
        return poly_text(e, atomM, AX).replace('pw(X,', 'pw(AX,')

    def terms(e, atoms, V):
        gens = list(atoms.keys())
        P = sympy.Poly(sympy.expand(e), V, *gens) if gens else sympy.Poly(sympy.expand(e), V)
        res = []
        for mon, coef in P.terms():
            rest = sympy.Rational(coef)
            for g_, ex in zip(gens, mon[1:]):
                rest = rest * g_ ** ex
            res.append((mon[0], rest))
        return res

    def product_facts(ea, eb, atoms, V, text):
        """per-monomial product facts and the expansion of (NF a)*(NF b)"""
        ta, tb = terms(ea, atoms, V), terms(eb, atoms, V)
        vname = 'X' if V == X else 'AX'
        facts = []
        for (da, ra) in ta:
            for (db, rb) in tb:
                lhs = f'({text(ra * V ** da)}) * ({text(rb * V ** db)})'
                rhs = text(sympy.expand(ra * rb) * V ** (da + db))
                req = [f'pw({vname}, 1nat) == {vname}', f'pw({vname}, 0nat) == 1real']
                if da >= 1 and db >= 1:
                    need_pw(da, db)
                    lo, hi = min(da, db), max(da, db)
                    req.append(f'pw({vname}, {lo}nat) * pw({vname}, {hi}nat) == pw({vname}, {da + db}nat)')
                out.append(f'        assert({lhs} == {rhs}) by(nonlinear_arith)\n            requires ' + ', '.join(req) + ';')
                facts.append(f'{lhs} == {rhs}')
        prod = sympy.expand(ea * eb)
        out.append(f'        assert(({text(ea)}) * ({text(eb)}) == {text(prod)}) by(nonlinear_arith)\n            requires '
                   + ',\n                     '.join(facts) + ';')
        return prod

    def value(ast):
        """returns (float-term text, E, M, k) for a float-valued expression, emitting the lemma calls for its operations"""
        a = exprs.strip_paren(ast)
        if a[0] == 'place':
            p = resolve(exprs.canon_place(a[1]))
            if p in info:
                return (p,) + info[p]
            if p == xplace:
                return (p, X, AX, 0)
            if p not in symE:
                counter[0] += 1
                symE[p] = sympy.Symbol(f'e{counter[0]}')
                symM[p] = sympy.Symbol(f'm{counter[0]}')
                atomE[symE[p]] = f'rv({p})'
                atomM[symM[p]] = f'ab(rv({p}))'
                out.append(f'        lemma_atom(rv({p}));')
            return (p, symE[p], symM[p], 0)
        if a[0] == 'call' and a[1] == 'mul_add':
            (ta, ea, ma, ka) = value(a[2])
            (tb, eb, mb, kb) = value(a[3][0])
            (tc, ec, mc, kc) = value(a[3][1])
            t = f'ffma({ta}, {tb}, {tc})'
            kk = max(ka + kb, kc)
            pe = product_facts(ea, eb, atomE, X, textE)
            pm = product_facts(ma, mb, atomM, AX, textM)
            ev, mv = sympy.expand(pe + ec), sympy.expand(pm + mc)
            out.append(f'        assert({textE(ev)} == ({textE(ea)}) * ({textE(eb)}) + ({textE(ec)}));')
            out.append(f'        assert({textM(mv)} == ({textM(ma)}) * ({textM(mb)}) + ({textM(mc)}));')
            out.append(f'        lemma_fma_step(rv({t}), rv({ta}), {textE(ea)}, {textM(ma)}, {ka}nat, rv({tb}), {textE(eb)}, {textM(mb)}, {kb}nat, '
                       f'rv({tc}), {textE(ec)}, {textM(mc)}, {kc}nat, dfma({ta}, {tb}, {tc}), {kk}nat, {textE(ev)}, {textM(mv)});')
            return (t, ev, mv, kk + 1)
        if a[0] == 'bin' and a[1] == '*':
            (ta, ea, ma, ka) = value(a[2])
            (tb, eb, mb, kb) = value(a[3])
            t = f'fmul({ta}, {tb})'
            pe = product_facts(ea, eb, atomE, X, textE)
            pm = product_facts(ma, mb, atomM, AX, textM)
            out.append(f'        lemma_mul_step(rv({t}), rv({ta}), {textE(ea)}, {textM(ma)}, {ka}nat, rv({tb}), {textE(eb)}, {textM(mb)}, {kb}nat, '
                       f'dmul({ta}, {tb}), {textE(pe)}, {textM(pm)});')
            return (t, pe, pm, ka + kb + 1)
        raise HintError(f'operation outside the rounding-error generator: {a}')

    kmax = 0
    for name, ast in lets:
        a = exprs.strip_paren(ast)
        if a[0] == 'place':
            alias[name] = resolve(exprs.canon_place(a[1]))
            continue
        (t, e, m, k) = value(ast)
        out.append(f'        assert({name} == {t});')
        info[name] = (e, m, k)
        kmax = max(kmax, k)
        out.append(f'        assert(ab(rv({name}) - ({textE(e)})) <= g({k}nat) * ({textM(m)}) && ab({textE(e)}) <= {textM(m)});')
    (e, m, k) = info[tailname]
    n = int(kv.get('n', 0))
    out.append(f'        // final: k = {k} roundings on the critical path; the property allows 4(n+2) = {4 * (n + 2)}')
    out.append(f'        lemma_final_bound(ab(rv({tailname}) - ({textE(e)})), {k}nat, {textM(m)}, {4 * (n + 2)}nat);')
    if kv.get('coeffs'):
        cs = kv['coeffs']
        out.append(f'        assert({cs}@.len() == {n});')
        out.append(f'        assert(psum({cs}@, X, 0nat) == 0real && pabs({cs}@, X, 0nat) == 0real);')
        for i_ in range(1, n + 1):
            out.append(f'        assert(psum({cs}@, X, {i_}nat) == psum({cs}@, X, {i_ - 1}nat) + rv({cs}[{i_ - 1}]) * pw(X, {i_ - 1}nat));')
            out.append(f'        assert(pabs({cs}@, X, {i_}nat) == pabs({cs}@, X, {i_ - 1}nat) + ab(rv({cs}[{i_ - 1}])) * pw(AX, {i_ - 1}nat));')
        out.append(f'        assert(polyval({cs}@, X) == {textE(e)});')
        out.append(f'        assert(pabs({cs}@, X, {n}nat) == {textM(m)});')
    global LAST_NF
    LAST_NF = textE(e)
    return '\n'.join(out) + '\n'


LAST_NF = None
GENERATORS = {'polyeval': gen_polyeval, 'polyerr': gen_polyerr}



def generate(gen, kv, stmts, tail, d):
    if gen not in GENERATORS:
        raise HintError(f'unknown hint generator {gen}')
    return GENERATORS[gen](kv, stmts, tail, d)
