"""Proof-hint generators.  Each takes the statements of an extracted straight-line body and
produces Verus proof text (assertions and lemma calls).  The hints are *checked* by Verus; the
generators are untrusted.  sympy is used only to predict the normal form to assert.
"""
import re
import exprs


class HintError(Exception):
    pass


def _sym():
    try:
        import sympy
    except ImportError:
        raise HintError('sympy is not importable (run the check with python3-vt)')
    return sympy


def poly_text(p, gens_text, X=None, pwname='pw'):
    """Render a sympy expression that is polynomial in the symbols of gens_text (dict Symbol->text)
    and in X (rendered through power atoms pw(X,k)) as Verus real text."""
    sympy = _sym()
    gens = list(gens_text.keys())
    allg = gens + ([X] if X is not None else [])
    if not allg:
        poly_terms = [((), sympy.nsimplify(p))]
    else:
        P = sympy.Poly(sympy.expand(p), *allg)
        poly_terms = P.terms()
    out = []
    for mon, coef in poly_terms:
        coef = sympy.Rational(coef)
        if coef == 0:
            continue
        factors = []
        for g, e in zip(allg, mon):
            if e == 0:
                continue
            if X is not None and g == X:
                factors.append(f'{pwname}(X, {e}nat)')
            else:
                factors.extend([gens_text[g]] * e)
        num, den = abs(coef.p), coef.q
        c = f'{num}real' if den == 1 else f'({num}real / {den}real)'
        if factors and num == 1 and den == 1:
            body = ' * '.join(factors)
        else:
            body = ' * '.join([c] + factors)
        out.append(('-' if coef < 0 else '+', body))
    if not out:
        return '0real'
    s = ''
    for i, (sg, b) in enumerate(out):
        if i == 0:
            s = ('-' if sg == '-' else '') + b
        else:
            s += f' {sg} {b}'
    return s


def gen_polyeval(kv, stmts, tail, d):
    """Hints for a straight-line float kernel that is polynomial in one designated argument.

    kv: x=<place of the argument>  [xreal=<verus real text for its value>]  [final=0|1]
        [atoms=a,b,c: let-names to be treated as opaque atoms]
    Every `let` is read as a one-step real equation (checked from the float-model axioms) and
    re-asserted in normal form  sum_k coef_k * pw(X,k)  (checked by nonlinear_arith from the
    one-step equation, the operands' normal forms and the needed pw(X,j)*pw(X,k)==pw(X,j+k)).
    """
    sympy = _sym()
    xplace = kv.get('x', 'x')
    opaque = set(kv.get('atoms', '').split(',')) - {''}
    lets = []
    for s in stmts:
        if not s.strip():
            continue
        m = exprs.LET.match(s)
        if not m:
            raise HintError(f'statement is not a let: {s[:50]!r}')
        name = m.group('pat').strip()
        try:
            if name in opaque:
                raise exprs.ParseError('declared opaque')
            for nm, ast in exprs.parse_lets([s]):
                lets.append((nm, ast))
        except exprs.ParseError:
            if not re.match(r'^\w+$', name):
                raise
            lets.append((name, None))  # opaque atom
    if tail:
        lets.append(('__r', exprs.parse_expr(tail)))
    X = sympy.Symbol('X')
    symtab = {}      # place -> sympy expr (for lets) or Symbol (atoms)
    atom_text = {}   # Symbol -> verus text
    nf = {}          # let name -> normal form text
    counter = [0]

    alias = {}

    def resolve(place):
        m_ = re.match(r'^(\w+)(.*)$', place)
        if m_ and m_.group(1) in alias:
            return alias[m_.group(1)] + m_.group(2)
        return place

    def sym(place):
        place = resolve(place)
        if place == xplace:
            return X
        if place in symtab:
            return symtab[place]
        counter[0] += 1
        s_ = sympy.Symbol(f'a{counter[0]}')
        symtab[place] = s_
        atom_text[s_] = f'rv({place})'
        return s_

    out = []
    out.append(f'        let X = rv({xplace});')
    out.append('        lemma_pw01(X);')
    pw_done = set()

    def need_pw(j, k):
        if j > k:
            j, k = k, j
        if j < 1 or (j, k) in pw_done:
            return
        pw_done.add((j, k))
        out.append(f'        lemma_pw_mul(X, {j}nat, {k}nat);')

    def operand_places(ast, acc):
        k = ast[0]
        if k == 'place':
            acc.append(resolve(exprs.canon_place(ast[1])))
        elif k in ('paren', 'neg'):
            operand_places(ast[1], acc)
        elif k == 'bin':
            operand_places(ast[2], acc)
            operand_places(ast[3], acc)
        elif k == 'call':
            operand_places(ast[2], acc)
            for a in ast[3]:
                operand_places(a, acc)

    def mul_pairs(ast):
        """degree sets of the two factors of every product in ast (to know which pw facts are needed)"""
        k = ast[0]
        res = []
        if k in ('paren', 'neg'):
            res += mul_pairs(ast[1])
        elif k == 'bin':
            res += mul_pairs(ast[2]) + mul_pairs(ast[3])
            if ast[1] == '*':
                res.append((ast[2], ast[3]))
        elif k == 'call':
            res += mul_pairs(ast[2])
            for a in ast[3]:
                res += mul_pairs(a)
            if ast[1] == 'mul_add':
                res.append((ast[2], ast[3][0]))
        return res

    def degs(e):
        P = sympy.Poly(sympy.expand(e), X)
        return [m[0] for m, c in P.terms() if c != 0]

    for name, ast in lets:
        if ast is None:
            sym(name)
            continue
        if exprs.strip_paren(ast)[0] == 'place':
            alias[name] = resolve(exprs.canon_place(exprs.strip_paren(ast)[1]))
            continue
        e = sympy.expand(exprs.to_sympy(ast, sym))
        if e.free_symbols and not sympy.Poly(e, X).is_zero and any(
                not t.is_polynomial(X) for t in [e]):
            raise HintError(f'{name} is not polynomial in {xplace}')
        onestep = exprs.to_real(ast, resolve=resolve)
        ops = []
        operand_places(ast, ops)
        reqs = [f'rv({name}) == {onestep}']
        for p in dict.fromkeys(ops):
            if p == xplace:
                continue
            if p in nf:
                reqs.append(f'rv({p}) == {nf[p]}')
        for a, b in mul_pairs(ast):
            da = degs(exprs.to_sympy(a, sym))
            db = degs(exprs.to_sympy(b, sym))
            for i in da:
                for j in db:
                    if i >= 1 and j >= 1:
                        need_pw(i, j)
                        lo, hi = min(i, j), max(i, j)
                        reqs.append(f'pw(X, {lo}nat) * pw(X, {hi}nat) == pw(X, {i + j}nat)')
        reqs.append('pw(X, 1nat) == X')
        reqs.append(f'X == rv({xplace})')
        reqs = list(dict.fromkeys(reqs))
        nf_text = poly_text(e, atom_text, X)
        nf[name] = nf_text
        symtab[name] = e
        out.append(f'        assert(rv({name}) == {onestep});')
        out.append(f'        assert(rv({name}) == {nf_text}) by(nonlinear_arith)\n            requires '
                   + ',\n                     '.join(reqs) + ';')
    return '\n'.join(out) + '\n'


GENERATORS = {'polyeval': gen_polyeval}


def generate(gen, kv, stmts, tail, d):
    if gen not in GENERATORS:
        raise HintError(f'unknown hint generator {gen}')
    return GENERATORS[gen](kv, stmts, tail, d)
