"""A small parser for the straight-line float expressions used in /repo's numeric kernels, and
translators from the parsed expression to (a) a Verus `real` expression over rv(..) atoms and
(b) a sympy expression.  Only used to GENERATE PROOF HINTS: every hint it produces is an
`assert` that Verus must discharge, so a mistranslation makes a proof fail (undecided), it can
never make a wrong claim pass.
"""
import re
from fractions import Fraction

TOK = re.compile(r'''\s*(?:
    (?P<num>\d[\d_]*\.\d[\d_]*(?:[eE][+-]?\d+)?(?:_?f64)?|\d[\d_]*(?:[eE][+-]?\d+)?(?:_?f64)?)
  | (?P<id>[A-Za-z_][A-Za-z0-9_]*(?:::[A-Za-z_][A-Za-z0-9_]*)*)
  | (?P<op>[-+*/().,\[\]&<>=!]|==|<=|>=)
)''', re.X)


class ParseError(Exception):
    pass


def tokenize(s):
    out = []
    i = 0
    s = s.strip()
    while i < len(s):
        m = TOK.match(s, i)
        if not m or m.end() == i:
            raise ParseError(f'cannot tokenize at: {s[i:i+30]!r}')
        if m.group('num') is not None:
            out.append(('num', m.group('num')))
        elif m.group('id') is not None:
            out.append(('id', m.group('id')))
        else:
            out.append(('op', m.group('op')))
        i = m.end()
    return out


# AST: ('num', text) ('place', text) ('bin', op, a, b) ('neg', a) ('call', method, recv, [args])
class P:
    def __init__(self, toks):
        self.t = toks
        self.i = 0

    def peek(self):
        return self.t[self.i] if self.i < len(self.t) else (None, None)

    def eat(self, kind=None, val=None):
        k, v = self.peek()
        if (kind and k != kind) or (val and v != val):
            raise ParseError(f'expected {kind} {val}, got {k} {v}')
        self.i += 1
        return v

    def expr(self, minp=0):
        lhs = self.unary()
        while True:
            k, v = self.peek()
            if k == 'op' and v in ('+', '-') and minp <= 1:
                self.i += 1
                rhs = self.expr(2)
                lhs = ('bin', v, lhs, rhs)
            elif k == 'op' and v in ('*', '/') and minp <= 2:
                self.i += 1
                rhs = self.expr(3)
                lhs = ('bin', v, lhs, rhs)
            else:
                return lhs

    def unary(self):
        k, v = self.peek()
        if k == 'op' and v == '-':
            self.i += 1
            return ('neg', self.unary())
        if k == 'op' and v in ('&', '*'):
            self.i += 1
            return self.unary()  # (de)reference: transparent for Copy floats
        return self.postfix(self.atom())

    def atom(self):
        k, v = self.peek()
        if k == 'num':
            self.i += 1
            return ('num', v)
        if k == 'id':
            self.i += 1
            if self.peek() == ('op', '(') and ('::' in v or v[0].islower()) and self.i < len(self.t):
                # free function call  path::f(args)
                self.i += 1
                args = []
                while not (self.peek() == ('op', ')')):
                    args.append(self.expr())
                    if self.peek() == ('op', ','):
                        self.i += 1
                self.eat('op', ')')
                return ('fcall', v, args)
            return ('place', v)
        if k == 'op' and v == '(':
            self.i += 1
            e = self.expr()
            self.eat('op', ')')
            return ('paren', e)
        raise ParseError(f'unexpected token {k} {v}')

    def postfix(self, e):
        while True:
            k, v = self.peek()
            if k == 'op' and v == '.':
                self.i += 1
                k2, v2 = self.peek()
                if k2 == 'num':  # tuple field .0
                    self.i += 1
                    e = ('place', place_text(e) + '.' + v2)
                elif k2 == 'id':
                    self.i += 1
                    k3, v3 = self.peek()
                    if k3 == 'op' and v3 == '(':
                        self.i += 1
                        args = []
                        while not (self.peek() == ('op', ')')):
                            args.append(self.expr())
                            if self.peek() == ('op', ','):
                                self.i += 1
                        self.eat('op', ')')
                        e = ('call', v2, e, args)
                    else:
                        e = ('place', place_text(e) + '.' + v2)
                else:
                    raise ParseError('bad postfix')
            elif k == 'op' and v == '[':
                self.i += 1
                k2, v2 = self.peek()
                if k2 != 'num':
                    raise ParseError('non-literal index')
                self.i += 1
                self.eat('op', ']')
                e = ('place', place_text(e) + '[' + v2 + ']')
            else:
                return e


def place_text(e):
    if e[0] == 'place':
        return e[1]
    if e[0] == 'paren' and e[1][0] == 'place':
        return '(' + e[1][1] + ')'
    raise ParseError(f'not a place: {e}')


def parse_expr(s):
    p = P(tokenize(s))
    e = p.expr()
    if p.i != len(p.t):
        raise ParseError(f'trailing tokens in {s!r}: {p.t[p.i:]}')
    return e


def strip_paren(e):
    while e[0] == 'paren':
        e = e[1]
    return e


def num_fraction(text):
    t = text.replace('_', '').replace('f64', '')
    return Fraction(t)


def is_exact_literal(text):
    """True iff the decimal literal is exactly representable as an f64."""
    fr = num_fraction(text)
    return Fraction(float(fr)) == fr


# ---- translation to Verus real text --------------------------------------------------------

def canon_place(p):
    """(self.0).0[3] -> self.0.0[3]"""
    return p.replace('(', '').replace(')', '')


CALLMAP = {}


def to_real(e, env=None, resolve=None):
    """One-step real reading of a float expression: every place becomes rv(place)."""
    e0 = e
    k = e[0]
    if k == 'paren':
        return '(' + to_real(e[1], env, resolve) + ')'
    if k == 'num':
        fr = num_fraction(e[1])
        if not is_exact_literal(e[1]):
            raise ParseError(f'literal {e[1]} is not exactly representable')
        if fr.denominator == 1:
            return f'{fr.numerator}real'
        return f'({fr.numerator}real / {fr.denominator}real)'
    if k == 'place':
        p = canon_place(e[1])
        if resolve:
            p = resolve(p)
        if env and p in env:
            return env[p]
        return f'rv({p})'
    if k == 'neg':
        return f'(-{to_real(e[1], env, resolve)})'
    if k == 'bin':
        return f'({to_real(e[2], env, resolve)} {e[1]} {to_real(e[3], env, resolve)})'
    if k == 'fcall':
        if e[1] not in CALLMAP:
            raise ParseError(f'call to {e[1]} has no real-valued reading')
        return f"{CALLMAP[e[1]]}({', '.join(to_real(a, env, resolve) for a in e[2])})"
    if k == 'call':
        m, recv, args = e[1], e[2], e[3]
        r = to_real(recv, env, resolve)
        if m == 'mul_add':
            return f'({r} * {to_real(args[0], env, resolve)} + {to_real(args[1], env, resolve)})'
        if m == 'neg':
            return f'(-{r})'
        if m == 'recip':
            return f'(1real / {r})'
        if m == 'ln':
            return f'lnr({r})'
        if m == 'exp':
            return f'expr({r})'
        raise ParseError(f'unknown method {m}')
    raise ParseError(f'bad node {e0}')


# ---- translation to sympy -----------------------------------------------------------------

def to_sympy(e, sym, funcs=None):
    """sym: callable place_text -> sympy expr (symbols for inputs, previously computed expr for lets)."""
    import sympy
    k = e[0]
    if k == 'paren':
        return to_sympy(e[1], sym, funcs)
    if k == 'num':
        fr = num_fraction(e[1])
        return sympy.Rational(fr.numerator, fr.denominator)
    if k == 'place':
        return sym(canon_place(e[1]))
    if k == 'neg':
        return -to_sympy(e[1], sym, funcs)
    if k == 'bin':
        a, b = to_sympy(e[2], sym, funcs), to_sympy(e[3], sym, funcs)
        return {'+': a + b, '-': a - b, '*': a * b, '/': a / b}[e[1]]
    if k == 'fcall':
        return sym('@call:' + to_real(e))
    if k == 'call':
        m, recv, args = e[1], e[2], e[3]
        r = to_sympy(recv, sym, funcs)
        if m == 'mul_add':
            return r * to_sympy(args[0], sym, funcs) + to_sympy(args[1], sym, funcs)
        if m == 'neg':
            return -r
        if m == 'recip':
            return 1 / r
        if funcs and m in funcs:
            return funcs[m](r)
        raise ParseError(f'unknown method {m}')
    raise ParseError(f'bad node {e}')


# ---- statements ---------------------------------------------------------------------------

LET = re.compile(r'^\s*let\s+(?:mut\s+)?(?P<pat>[^=:]+?)\s*(?::\s*(?P<ty>[^=]+?))?\s*=\s*(?P<rhs>.+)$', re.S)


def parse_lets(stmts):
    """stmts: list of statement texts (comments already stripped). Returns list of (name, ast)
    for simple lets and tuple lets `let (a, b) = (e1, e2)`; raises ParseError on anything else."""
    out = []
    for s in stmts:
        s = s.strip()
        if not s:
            continue
        m = LET.match(s)
        if not m:
            raise ParseError(f'not a let: {s[:60]!r}')
        pat, rhs = m.group('pat').strip(), m.group('rhs').strip()
        if pat.startswith('('):
            names = [x.strip() for x in pat.strip('()').split(',')]
            assert rhs.startswith('(') and rhs.endswith(')')
            from rsparse import split_top_level
            parts = [t for t, _ in split_top_level(rhs[1:-1], ',')]
            parts = [p for p in parts if p.strip()]
            if len(parts) != len(names):
                raise ParseError('tuple let arity')
            for n, p in zip(names, parts):
                out.append((n, parse_expr(p)))
        else:
            out.append((pat, parse_expr(rhs)))
    return out
