#!/bin/sh
# Z3 wrapper for Verus (VERUS_Z3_PATH): forwards everything to the bundled Z3 but rewrites the one
# option that makes nonlinear real arithmetic hang. Changes a solver heuristic only.
Z3=/opt/veriftools/verus/z3
case "$*" in *--version*|*-version*) exec "$Z3" "$@";; esac
sed -u 's/(set-option :smt.arith.solver 6)/(set-option :smt.arith.nl true)/' | "$Z3" "$@"
