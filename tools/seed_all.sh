#!/bin/sh
# usage: tools/seed_all.sh <id> <prop> [extra props...]   -- applies /verif/seeded/<id>/patch.diff to /repo, runs the checks, undoes it
id="$1"; shift
d=/verif/seeded/$id
git -C /repo apply "$d/patch.diff" || { echo "patch does not apply"; exit 3; }
for p in "$@"; do
  /verif/check "$p" --no-evidence 2>&1 | grep -v "^$" | tail -4 | cut -c1-300
done
git -C /repo checkout -- .
