"""Kani runner: the real crate (scratch copy of the tree under test, source unchanged) plus the
harness modules of /verif/kani attached as child modules under cfg(kani)."""
import os
import re
import sys
import json
import time
import shutil
import tempfile
import subprocess

HERE = os.path.dirname(os.path.abspath(__file__))
VERIF = os.path.dirname(HERE)
CACHE = os.path.join(VERIF, '.cache')

# source file -> harness module file (attached when the harness file exists)
ATTACH = {
    'piecewise.rs': 'piecewise_h.rs',
    'poly.rs': 'poly_h.rs',
    'log_poly.rs': 'log_poly_h.rs',
    'spline.rs': 'spline_h.rs',
    'linear.rs': 'linear_h.rs',
}
MOD_OF = {'piecewise.rs': 'piecewise', 'poly.rs': 'poly', 'log_poly.rs': 'log_poly', 'spline.rs': 'spline', 'linear.rs': 'linear'}


def make_scratch(src_root, harness_override=None, features=None):
    d = tempfile.mkdtemp(prefix='verif-kani-')
    for item in ('src', 'benches'):
        p = os.path.join(src_root, item)
        if os.path.isdir(p):
            shutil.copytree(p, os.path.join(d, item))
    for item in ('Cargo.toml', 'Cargo.lock'):
        shutil.copy(os.path.join(src_root, item), d)
    if os.path.realpath(src_root) != os.path.realpath('/repo'):
        # a tree other than /repo (seeded change, harmless edit): private target directory inside the scratch copy.  Concurrent runs on
        # DIFFERENT trees sharing one target directory produced a false alarm (a harmless edit reported the failures of a seeded change
        # that was being checked at the same time); runs on /repo itself share the persistent cache (identical sources).
        open(os.path.join(d, '.private-target'), 'w').write('1')
    os.makedirs(os.path.join(d, '.cargo'), exist_ok=True)
    open(os.path.join(d, '.cargo', 'config.toml'), 'w').write('[net]\noffline = true\n')
    for src, h in ATTACH.items():
        hp = os.path.join(VERIF, 'kani', h)
        if harness_override and h in harness_override:
            hp = harness_override[h]
        sp = os.path.join(d, 'src', src)
        if os.path.exists(hp) and os.path.exists(sp):
            with open(sp, 'a') as f:
                f.write(f'\n#[cfg(kani)] #[path = "{hp}"] mod verif_kani;\n')
    return d


def target_dir(scratch):
    return os.path.join(scratch, '.kani-target') if os.path.exists(os.path.join(scratch, '.private-target')) else os.path.join(CACHE, 'kani-target')


def full_name(h):
    return f"{h['module']}::verif_kani::{h['name']}"


def parse_output(out, harnesses):
    """Parse `cargo kani --output-format=terse -j N` output."""
    by_thread = {}
    res = {}
    cur = None
    lines = out.split('\n')
    cur_thread = None
    for ln in lines:
        m = re.match(r'^(?:Thread (\d+): )?Checking harness (\S+?)\.\.\.', ln)
        if m:
            t = m.group(1) or '0'
            by_thread[t] = m.group(2)
            res.setdefault(m.group(2), {'checks_total': 0, 'checks_failed': 0, 'failed_checks': [], 'verdict': None, 'time_s': 0.0})
            cur_thread = t
            continue
        m = re.match(r'^Thread (\d+):\s*$', ln)
        if m:
            cur_thread = m.group(1)
            continue
        if cur_thread is None or cur_thread not in by_thread:
            continue
        r = res[by_thread[cur_thread]]
        m = re.match(r'^\s*\*\* (\d+) of (\d+) failed', ln)
        if m:
            r['checks_failed'] = int(m.group(1))
            r['checks_total'] = int(m.group(2))
            continue
        m = re.match(r'^\s*\*\* (\d+) of (\d+) cover properties satisfied', ln)
        if m:
            r['covers_sat'] = int(m.group(1))
            r['covers_total'] = int(m.group(2))
            continue
        m = re.match(r'^Failed Checks: (.*)$', ln)
        if m:
            r['failed_checks'].append(m.group(1).strip())
            continue
        m = re.match(r'^\s*File: "([^"]+)", line (\d+), in (.*)$', ln)
        if m and r['failed_checks']:
            r['failed_checks'][-1] += f'  [{m.group(1)}:{m.group(2)} in {m.group(3)}]'
            continue
        m = re.match(r'^CBMC (failed with status|crashed|timed out)(.*)$', ln)
        if m:
            r['tool_failure'] = ln.strip()
            continue
        m = re.match(r'^VERIFICATION:- (SUCCESSFUL|FAILED)(.*)$', ln)
        if m:
            r['verdict'] = m.group(1)
            r['verdict_note'] = m.group(2).strip()
            continue
        m = re.match(r'^Verification Time: ([0-9.]+)s', ln)
        if m:
            r['time_s'] = float(m.group(1))
    return res


sys.path.insert(0, os.path.dirname(os.path.abspath(__file__)))
import procgrp


def run_kani(scratch, names, jobs, timeout, extra=None):
    cmd = ['cargo', 'kani', '--target-dir', target_dir(scratch), '--output-format=terse', '--exact',
           '-j', str(jobs)]
    for n in names:
        cmd += ['--harness', n]
    cmd += extra or []
    # CBMC writes its CNF for the external SAT solver into TMPDIR (GBs, left behind when a run is killed): keep it inside the scratch copy
    os.makedirs(os.path.join(scratch, '.tmp'), exist_ok=True)
    env = dict(os.environ, CARGO_NET_OFFLINE='true', TMPDIR=os.path.join(scratch, '.tmp'))
    t0 = time.time()
    so, se, _rc, to = procgrp.run(cmd, timeout, cwd=scratch, env=env)
    return so + '\n' + se, to, time.time() - t0


def playback(src_root, h, timeout=600, features=None):
    """Get Kani's concrete counterexample for harness h and replay it natively against the real code."""
    scratch = make_scratch(src_root)
    try:
        cmd = ['cargo', 'kani', '--target-dir', target_dir(scratch), '--exact', '--harness', full_name(h),
               '-Z', 'concrete-playback', '--concrete-playback=print'] + list(h.get('extra', []))
        os.makedirs(os.path.join(scratch, '.tmp'), exist_ok=True)
        env = dict(os.environ, CARGO_NET_OFFLINE='true', TMPDIR=os.path.join(scratch, '.tmp'))
        so, _se, _rc, to = procgrp.run(cmd, timeout, cwd=scratch, env=env)
        if to:
            return None
        m = re.search(r'```\n(.*?)```', so, re.S)
        if not m:
            return None
        test = m.group(1)
        tn = re.search(r'fn (kani_concrete_playback_\w+)', test).group(1)
        decoded = re.findall(r'^\s*// (.*)$', test, re.M)
        ce = {'harness': full_name(h), 'test_name': tn, 'test_text': test, 'decoded': decoded,
              'harness_file': ATTACH_REV(h['module'])}
        ce['native_replay'] = native_replay(src_root, ce)
        return ce
    finally:
        shutil.rmtree(scratch, ignore_errors=True)


def ATTACH_REV(module):
    for src, m in MOD_OF.items():
        if m == module:
            return ATTACH[src]
    raise KeyError(module)


def native_replay(src_root, ce, timeout=600):
    """Compile the harness natively (kani playback mode) against src_root and run the stored test."""
    hfile = ce['harness_file']
    tmp = tempfile.mkdtemp(prefix='verif-kani-pb-')
    try:
        hcopy = os.path.join(tmp, hfile)
        shutil.copy(os.path.join(VERIF, 'kani', hfile), hcopy)
        with open(hcopy, 'a') as f:
            f.write('\n' + ce['test_text'] + '\n')
        scratch = make_scratch(src_root, harness_override={hfile: hcopy})
        try:
            env = dict(os.environ, CARGO_NET_OFFLINE='true', CARGO_TARGET_DIR=os.path.join(CACHE, 'kani-target-pb'))
            cmd = ['cargo', 'kani', 'playback', '-Z', 'concrete-playback', '--', ce['test_name']]
            try:
                p = subprocess.run(cmd, cwd=scratch, env=env, capture_output=True, text=True, timeout=timeout)
            except subprocess.TimeoutExpired:
                return {'ran': False, 'note': 'native playback timed out'}
            out = p.stdout + p.stderr
            mm = re.search(r'test result: (\w+)\. (\d+) passed; (\d+) failed', out)
            pan = re.search(r'panicked at ([^\n]*)\n([^\n]*)', out)
            return {'ran': bool(mm), 'fails_natively': bool(mm and int(mm.group(3)) > 0),
                    'panic': (pan.group(1) + ' ' + pan.group(2)) if pan else None}
        finally:
            shutil.rmtree(scratch, ignore_errors=True)
    finally:
        shutil.rmtree(tmp, ignore_errors=True)


def replay_counterexample(d):
    ce = d['failing_input']
    r = native_replay('/repo', ce)
    print('native replay of Kani counterexample for', ce['harness'])
    for c in ce.get('decoded', []):
        print('   value:', c)
    print('   result:', r)
    if r.get('fails_natively'):
        print('REPLAY: case FAILS on this tree:', r.get('panic'))
        return 1
    print('REPLAY: case passes on this tree')
    return 0


def run_sets(sets, src_root, prop, tier):
    """sets: list of {'set':name, 'jobs':n, 'timeout':s, 'extra':[..], 'harnesses':[{name,module,bound,complete,functions}]}"""
    os.makedirs(CACHE, exist_ok=True)
    results = []
    scratch = make_scratch(src_root)
    try:
        for s in sets:
            hs = s['harnesses']
            names = [full_name(h) for h in hs]
            out, to, wall = run_kani(scratch, names, s.get('jobs', 8), s.get('timeout', 1500), s.get('extra'))
            parsed = parse_output(out, hs)
            build_failed = ('error: could not compile' in out) or ('error[E' in out and not parsed)
            for h in hs:
                fn = full_name(h)
                r = {'set': s['set'], 'harness': fn, 'bound': h.get('bound'), 'complete': h.get('complete', False),
                     'functions': [{'function': f, 'backend': 'kani', 'harness': h['name']} for f in h.get('functions', [])],
                     'wall_s': 0.0, 'solver_s': 0.0, 'checks_total': 0, 'checks_failed': 0, 'failed_checks': []}
                pr = parsed.get(fn)
                if build_failed:
                    errs = [l for l in out.split('\n') if l.startswith('error')][:3]
                    r.update(status='undecided', reason='harness/crate did not compile under kani: ' + ' | '.join(errs))
                elif pr is None or pr['verdict'] is None:
                    r.update(status='undecided', reason=('timeout after %ds' % s.get('timeout', 1500)) if to else 'no verdict in kani output (harness missing?)')
                else:
                    r.update(checks_total=pr['checks_total'], checks_failed=pr['checks_failed'], failed_checks=pr['failed_checks'],
                             wall_s=pr['time_s'], solver_s=pr['time_s'])
                    r['covers'] = [pr.get('covers_sat'), pr.get('covers_total')]
                    if pr['verdict'] == 'SUCCESSFUL':
                        r['status'] = 'ok'
                        if h.get('mustpanic'):
                            r['checks_failed'] = 0   # the expected panic is the obligation and it was met
                            r['failed_checks'] = []
                        if pr['checks_total'] == 0:
                            r.update(status='undecided', reason='zero checks generated')
                        elif pr.get('covers_total') and pr.get('covers_sat', 0) < pr['covers_total']:
                            r.update(status='undecided', reason='VACUOUS: harness end unreachable (cover unsatisfied)')
                        elif not h.get('mustpanic') and pr.get('covers_total') is None:
                            r.update(status='undecided', reason='no reachability cover reported')
                    else:
                        # unwinding assertion failures mean the bound is too small: tool limit, not a violation
                        only_unwind = pr['failed_checks'] and all('unwinding assertion' in c for c in pr['failed_checks'])
                        only_inv = pr['failed_checks'] and all('[inv]' in c for c in pr['failed_checks'])
                        if not pr['failed_checks'] and (pr.get('tool_failure') or pr['checks_total'] == 0):
                            # CBMC was killed / crashed / ran out of memory: no property was reported as failed - a tool failure, not a violation
                            r.update(status='undecided', reason='back end did not finish: ' + (pr.get('tool_failure') or 'FAILED without any failed check'))
                        elif only_unwind:
                            r.update(status='undecided', reason='unwinding bound too small: ' + pr['failed_checks'][0])
                        elif only_inv:
                            # the representation invariant is a proof device, not part of the property
                            r['status'] = 'inv-fail'
                        else:
                            r['status'] = 'fail'
                results.append(r)
        # counterexample + native replay for the first failing harness
        for r in results:
            if r['status'] == 'fail':
                h = next(h for s in sets for h in s['harnesses'] if full_name(h) == r['harness'])
                try:
                    r['counterexample'] = playback(src_root, h)
                except Exception as e:  # never let the decoration break the verdict
                    r['counterexample'] = None
                    r['playback_error'] = repr(e)
                break
        return results
    finally:
        shutil.rmtree(scratch, ignore_errors=True)


if __name__ == '__main__':
    import props as P
    prop = sys.argv[1]
    tier = sys.argv[2] if len(sys.argv) > 2 else 'quick'
    src = sys.argv[3] if len(sys.argv) > 3 else '/repo'
    sets = P.PROPS[prop]['kani'][tier]
    for r in run_sets(sets, src, prop, tier):
        print(json.dumps({k: v for k, v in r.items() if k not in ('functions',)}, indent=None)[:1500])
