"""Per-property configuration: which Verus units and Kani harnesses decide it, level, trusted base."""
import os
import re

VERIF = os.path.dirname(os.path.dirname(os.path.abspath(__file__)))

FM_NOTE = ('float model FM-R (exact mode): on finite operands every IEEE operation returns the exact real result '
           '(machine arithmetic treated as mathematical; overflow/underflow/rounding excluded, as the property statements do)')
FM_BITS = 'float model FM-bits: an exec float operation is the named IEEE function (uninterpreted), no idealisation'
FM_ORD = 'float model FM-order: comparisons go through nan()/ord() (order embedding of non-NaN floats); true of IEEE 754'
PARAM = ('parametricity: generic code (Segment<T>, Piecewise<T>, PiecewiseEvaluator<T>) can use a piece only through its trait '
         'methods, so behaviour observed with the recording Tag piece type is the behaviour for every T')
Z3W = 'tools/z3wrap.sh changes one Z3 heuristic option (smt.arith.nl) for Verus queries; unsat answers are as sound as before'


def H(name, module, bound=None, complete=False, functions=(), extra=()):
    return {'name': name, 'module': module, 'bound': bound, 'complete': complete, 'functions': list(functions), 'extra': list(extra)}


def hs(prefix, module, ns, bound_fmt, functions, complete=False):
    return [H(f'{prefix}{n}', module, bound_fmt.format(n=n) if bound_fmt else None, complete, functions) for n in ns]


PW_EVAL = ['src/piecewise.rs: impl Evaluate for Piecewise<T> :: evaluate']
EV_FNS = ['src/piecewise.rs: PiecewiseEvaluator::new', 'src/piecewise.rs: PiecewiseEvaluator::evaluate']

PROPS = {
    'C01': {
        'verus': ['u_polyeval'],
        'kani': {},
        'probe': True,
        'level': 'proof',
        'explanation': 'Verus contracts on the real bodies of Poly0..Poly8::evaluate and Log<T>::evaluate: result == sum_i c_i x^i '
                       '(psum/pw spec) in the exact-real float model, for all coefficient vectors and arguments.',
        'assumptions': [FM_NOTE, FM_BITS, Z3W,
                        'rounding-error clause (4(n+2)u bound) is NOT decided: exact-mode only',
                        'PolyN::evaluate (iterator fold) is outside the Verus subset: decided only by the bounded Kani harness when present'],
    },
    'C02': {
        'verus': ['u_pwsel'],
        'kani': {
            'quick': [{'set': 'c02', 'jobs': 8, 'timeout': 1200,
                       'harnesses': hs('c02_direct_n', 'piecewise', [1, 2, 3, 4, 5], 'segments N = {n} (loops unwound)', PW_EVAL)}],
            'thorough': [{'set': 'c02', 'jobs': 8, 'timeout': 3000,
                          'harnesses': hs('c02_direct_n', 'piecewise', [1, 2, 3, 4, 5], 'segments N = {n} (loops unwound)', PW_EVAL)}],
        },
        'probe': False,
        'level': 'proof',
        'explanation': 'Verus contract on the real body of <Piecewise<T> as Evaluate>::evaluate (abstract piece type, ANY number of segments, EVERY f64 x): '
                       'r == segments[sel(segments, x)].poly.ev(x) with sel = first index whose end is > x (machine comparison) else the last; the assert! is '
                       'proved not to fire for non-empty input. Cross-checked by Kani harnesses on the compiled crate with recording Tag pieces (N <= 4/5).',
        'assumptions': [FM_BITS, FM_ORD, PARAM,
                        'trusted contract (assume_specification) for <slice::Iter as Iterator>::position; vstd contracts for slice::iter, slice::last, Option::unwrap, Vec indexing',
                        'extraction binds the receiver temporary: `v.iter().position(c)` is verified as `{ let mut it = v.iter(); it.position(c) }` with the closure annotated by its ensures',
                        'Kani cross-check bounded: number of segments N <= 5 (quick) / 6 (thorough)'],
    },
    'C03': {
        'verus': [],
        'kani': {
            'quick': [{'set': 'c03', 'jobs': 8, 'timeout': 1500,
                       'harnesses': hs('c03_new_n', 'piecewise', [1, 2, 3, 4], 'segments N = {n}', EV_FNS[:1]) +
                                    hs('c03_step_n', 'piecewise', [1, 2, 3, 4], 'segments N = {n}; history length unbounded (inductive step)', EV_FNS[1:]) +
                                    [H('c03_hist_n3_k3', 'piecewise', 'segments N = 3, history length 3 (public-API cross-check)', False, EV_FNS)]}],
            'thorough': [{'set': 'c03', 'jobs': 8, 'timeout': 6000,
                          'harnesses': hs('c03_new_n', 'piecewise', [1, 2, 3, 4], 'segments N = {n}', EV_FNS[:1]) +
                                       hs('c03_step_n', 'piecewise', [1, 2, 3, 4, 5, 6], 'segments N = {n}; history length unbounded (inductive step)', EV_FNS[1:]) +
                                       [H('c03_hist_n2_k3', 'piecewise', 'segments N = 2, history length 3', False, EV_FNS),
                                        H('c03_hist_n3_k3', 'piecewise', 'segments N = 3, history length 3', False, EV_FNS),
                                        H('c03_hist_n4_k3', 'piecewise', 'segments N = 4, history length 3', False, EV_FNS)]}],
        },
        'probe': False,
        'level': 'other',
        'explanation': 'Representation invariant of PiecewiseEvaluator proved inductive with Kani on the real code: new() establishes it; from ANY state '
                       'satisfying it, ANY non-NaN query returns the piece direct evaluation selects (with argument x) and re-establishes it. '
                       'Hence all histories of any length; bounded only in the number of segments.',
        'assumptions': [PARAM, 'bounded: number of segments N <= 4 (quick) / 6 (thorough); history length is NOT bounded'],
    },
}


TY_NOTE = 'typing axioms ax_ty_*: every f64 field of a crate struct holds some f64 value (compensates a Verus encoding gap; true of Rust)'

PROPS['C07'] = {
    'verus': ['u_polycalc'],
    'kani': {},
    'probe': True,
    'level': 'proof',
    'explanation': 'Verus contracts on the real bodies of Poly0..Poly7::{indefinite,integral} (and the translate impls they call): zero constant term, '
                   'coefficients c_i/(i+1), value at knot.x equals knot.y (exact-real model); client lemma roundtrip_k proves derivative(indefinite(p)) == p '
                   'coefficient-wise from the two contracts alone. evaluate is used through its contract (proved in unit u_polyeval).',
    'assumptions': [FM_NOTE, FM_BITS, TY_NOTE, Z3W,
                    'Evaluate contracts of Poly1..Poly8 are assumed in this unit (external_body) and discharged by the C01 unit u_polyeval',
                    'the step from coefficients c_i/(i+1) to F(b)-F(a) = integral of p is the power rule + fundamental theorem of calculus (textbook mathematics, not machine-checked)',
                    'bit-level lane assertions ([bits]: single IEEE quotient) are secondary: their failure alone is reported only with a concrete failing input'],
}
PROPS['C08'] = {
    'verus': ['u_polycalc'],
    'kani': {},
    'probe': True,
    'level': 'proof',
    'explanation': 'Verus contracts on the real bodies of Poly0..Poly8::derivative: lane i equals (i+1)*c_(i+1) in the exact-real model (degree 0 gives 0), '
                   'with secondary bit-level assertions (lane 0 copied verbatim, every other lane one IEEE product).',
    'assumptions': [FM_NOTE, FM_BITS, TY_NOTE,
                    'Segment/Piecewise::derivative wiring is decided by Kani harnesses when present (bounded in the number of pieces)',
                    'bit-level lane assertions ([bits]) are secondary: their failure alone is reported only with a concrete failing input'],
}


def scan_assumptions(units):
    """Mechanical scan of the templates and preludes for trusted declarations."""
    files = set()
    for u in units:
        p = os.path.join(VERIF, 'verus', u + '.rs')
        files.add(p)
        for ln in open(p):
            if ln.strip().startswith('//@include'):
                files.add(os.path.join(VERIF, 'verus', ln.strip().split()[1]))
    out = []
    for p in sorted(files):
        txt = open(p).read()
        for m in re.finditer(r'(?m)^\s*(?:pub\s+)?(?:broadcast\s+)?(axiom fn\s+\w+|assume_specification[^\n]*?\[\s*[^\]]+\]|#\[verifier::external_body\][^\n]*\n[^\n]*fn\s+\w+|.*\bassume\(|.*\badmit\()', txt):
            s = re.sub(r'\s+', ' ', m.group(1)).strip()
            out.append(f'{os.path.basename(p)}: {s[:110]}')
    if files:
        out.append('literal axioms: one per float literal in the extracted bodies (exact rational value of the IEEE double), generated mechanically')
    return out
