"""Per-property configuration: which Verus units and Kani harnesses decide it, level, trusted base."""
import os
import re

VERIF = os.path.dirname(os.path.dirname(os.path.abspath(__file__)))

FM_NOTE = ('float model FM-R (exact mode): on finite operands every IEEE operation returns the exact real result '
           '(machine arithmetic treated as mathematical; overflow/underflow/rounding excluded, as the property statements do)')
FM_BITS = 'float model FM-bits: an exec float operation is the named IEEE function (uninterpreted), no idealisation'
FM_ORD = 'float model FM-order: comparisons go through nan()/ord() (order embedding of non-NaN floats); true of IEEE 754'
PARAM = ('parametricity: generic code (Segment<T>, Piecewise<T>, PiecewiseEvaluator<T>) can use a piece only through its trait '
         'methods, so behaviour observed with the recording Tag piece type is the behaviour for every T')
SMALL = 'numbers range over integer-valued doubles in [-100,100] (exact arithmetic; CBMC float circuits are otherwise intractable)'
Z3W = 'tools/z3wrap.sh changes one Z3 heuristic option (smt.arith.nl) for Verus queries; unsat answers are as sound as before'


NOT_APPLICABLE = {
    'C18': ('no contract within reach can decide it: the round trip is the behaviour of proc-macro output (serde/borsh derives) composed with third-party format code, not of a function in /repo. '
            'Measured: Kani harnesses `from_slice(to_vec(v)) == v` through the real borsh 1.8 crate for Knot/Poly3/Poly8/IntOfLogPoly4/Segment/Piecewise(1 piece) all ran out of the 15 min budget '
            '(Vec<u8> writer and reader loops with input-dependent bounds); serde needs a format crate and text formats (ryu printing/parsing) are out of reach for CBMC; Verus has no model of the derive output. '
            'Not claimed rather than tested by another technique (DESIGN.md section 6/C18).'),
    'C19': ('no contract within reach can decide it: <Piecewise<T> as Arbitrary>::arbitrary is dominated by Vec::<f64>::arbitrary of the external `arbitrary` crate (iterator + collect with an input-dependent length). '
            'Measured: the Kani harness over symbolic byte strings finishes only for the empty input; a ONE-byte input did not finish in 20 min and 12 GB; Kani 0.68 cannot stub generic trait functions '
            '(`<Vec<f64> as Arbitrary>::arbitrary`), and Verus has no specs for all/sort_by/map/collect over fallible closures. The consequences C19 draws (evaluation of well-formed functions) are C02/C03/C12/C16.'),
}


def H(name, module, bound=None, complete=False, functions=(), extra=(), mustpanic=False):
    return {'name': name, 'module': module, 'bound': bound, 'complete': complete, 'functions': list(functions), 'extra': list(extra),
            'mustpanic': mustpanic or name.endswith('_mustpanic')}


def hs(prefix, module, ns, bound_fmt, functions, complete=False):
    return [H(f'{prefix}{n}', module, bound_fmt.format(n=n) if bound_fmt else None, complete, functions) for n in ns]


PN = ['src/poly.rs: impl Evaluate for PolyN :: evaluate']
PW_EVAL = ['src/piecewise.rs: impl Evaluate for Piecewise<T> :: evaluate']
EV_FNS = ['src/piecewise.rs: PiecewiseEvaluator::new', 'src/piecewise.rs: PiecewiseEvaluator::evaluate']

PROPS = {
    'C01': {
        'verus': ['u_polyeval', 'u_fme_ident', 'u_fme_lemmas', 'u_polyeval_fme'],
        'kani': {'quick': [{'set': 'c01', 'jobs': 8, 'timeout': 2400, 'extra': ['--solver', 'kissat'],
                            'harnesses': [H(f'c01_polyn_{n}', 'poly', f'length {n}; integer-valued coefficients in [-100,100]; x in {{0, 1, -1, 2}}', False, PN) for n in (0, 1, 2, 3, 4)] +
                                         [H(f'c01_polyn_pm1_{n}', 'poly', f'length {n}; integer-valued coefficients in [-100,100]; x in {{0, 1, -1}}', False, PN) for n in (5, 6, 7)] +
                                         [H('c01_polyn_impulse_24', 'poly', 'length 24; one integer-valued coefficient at a symbolic position, the others zero; x in {1, -1}', False, PN)]}],
                 'thorough': [{'set': 'c01', 'jobs': 8, 'timeout': 9000, 'extra': ['--solver', 'kissat'],
                               'harnesses': [H(f'c01_polyn_{n}', 'poly', f'length {n}; integer-valued coefficients in [-100,100]; x in {{0, 1, -1, 2}}', False, PN) for n in (0, 1, 2, 3, 4, 5, 6, 7, 8)] +
                                            [H(f'c01_polyn_pm1_{n}', 'poly', f'length {n}; integer-valued coefficients in [-100,100]; x in {{0, 1, -1}}', False, PN) for n in (9, 10, 11, 12)] +
                                            [H(f'c01_polyn_impulse_{n}', 'poly', f'length {n}; one integer-valued coefficient at a symbolic position, the others zero; x in {{1, -1}}', False, PN) for n in (24, 40)]}]},
        'probe': True,
        'level': 'other',
        'explanation': 'Verus contracts on the real bodies of Poly0..Poly8::evaluate and Log<T>::evaluate: result == sum_i c_i x^i '
                       '(psum/pw spec) in the exact-real float model, for all coefficient vectors and arguments (proof). ROUNDING clause (unit u_polyeval_fme, same real bodies of '
                       'Poly1..Poly8): in the standard model of floating-point arithmetic (every `*` and `mul_add` returns the exact result times (1+d), |d| <= 2^-53) '
                       '|evaluate(x) - sum c_i x^i| <= 4(n+2) 2^-53 sum |c_i||x|^i, whatever scheme the code uses: the hint generator tracks, per operation, the exact value E, the '
                       'magnitude M and a rounding count k and calls lemma_fma_step / lemma_mul_step (units u_fme_lemmas, u_fme_ident); k <= 8 on every path, the property allows 4(n+2). PolyN::evaluate (iterator fold, outside '
                       'the Verus subset): Kani harness, bit-equal to the Horner recursion h(i) = h(i+1).mul_add(x, c[i]), empty = 0.0, for lengths 0..4 with x in {0,1,-1,2} and 5..7 with x in {0,1,-1} (quick) / '
                       '0..8 resp. 9..12 (thorough), integer-valued coefficients (bounded).',
        'assumptions': [FM_NOTE, FM_BITS, Z3W,
                        'rounding clause: standard model FM-E (relative error <= 2^-53 per operation; overflow/underflow excluded, as the property does); decided for Poly0..Poly8, '
                        'NOT for Log<T> (needs an error model of ln) and NOT for PolyN',
                        'the error-propagation lemmas are proved in unit u_fme_lemmas (Verus own nonlinear options) and imported into u_polyeval_fme by mechanically copied signature',
                        'PolyN::evaluate (iterator fold) is outside the Verus subset: decided only by the bounded Kani harness (lengths, integer-valued coefficients, 4 arguments); that Horner equals sum c_i x^i is elementary'],
    },
    'C02': {
        'verus': ['u_pwsel'],
        'kani': {
            'quick': [{'set': 'c02', 'jobs': 8, 'timeout': 1200,
                       'harnesses': hs('c02_direct_n', 'piecewise', [1, 2, 3, 4, 5, 6, 9, 12], 'segments N = {n} (loops unwound)', PW_EVAL)}],
            'thorough': [{'set': 'c02', 'jobs': 8, 'timeout': 3000,
                          'harnesses': hs('c02_direct_n', 'piecewise', [1, 2, 3, 4, 5, 6, 9, 12, 17], 'segments N = {n} (loops unwound)', PW_EVAL)}],
        },
        'probe': True,
        'level': 'proof',
        'explanation': 'Verus contract on the real body of <Piecewise<T> as Evaluate>::evaluate (abstract piece type, ANY number of segments, EVERY f64 x): '
                       'r == segments[sel(segments, x)].poly.ev(x) with sel = first index whose end is > x (machine comparison) else the last; the assert! is '
                       'proved not to fire for non-empty input. Cross-checked by Kani harnesses on the compiled crate with recording Tag pieces (N <= 4/5).',
        'assumptions': [FM_BITS, FM_ORD, PARAM,
                        'trusted contract (assume_specification) for <slice::Iter as Iterator>::position; vstd contracts for slice::iter, slice::last, Option::unwrap, Vec indexing',
                        'extraction binds the receiver temporary: `v.iter().position(c)` is verified as `{ let mut it = v.iter(); it.position(c) }` with the closure annotated by its ensures',
                        'Kani cross-check bounded: number of segments N in 1..6, 9, 12 (quick), plus 17 (thorough)'],
    },
    'C03': {
        'verus': ['u_pweval'],
        'kani': {
            'quick': [{'set': 'c03', 'jobs': 8, 'timeout': 1500,
                       'harnesses': hs('c03_new_n', 'piecewise', [1, 2, 3, 4], 'segments N = {n}', EV_FNS[:1]) +
                                    hs('c03_step_n', 'piecewise', [1, 2, 3, 4], 'segments N = {n}; history length unbounded (inductive step)', EV_FNS[1:]) +
                                    [H('c03_hist_n3_k3', 'piecewise', 'segments N = 3, history length 3 (public-API cross-check)', False, EV_FNS)]}],
            'thorough': [{'set': 'c03', 'jobs': 8, 'timeout': 6000,
                          'harnesses': hs('c03_new_n', 'piecewise', [1, 2, 3, 4], 'segments N = {n}', EV_FNS[:1]) +
                                       hs('c03_step_n', 'piecewise', [1, 2, 3, 4, 5, 6, 8, 10], 'segments N = {n}; history length unbounded (inductive step)', EV_FNS[1:]) +
                                       [H('c03_hist_n2_k3', 'piecewise', 'segments N = 2, history length 3', False, EV_FNS),
                                        H('c03_hist_n3_k3', 'piecewise', 'segments N = 3, history length 3', False, EV_FNS),
                                        H('c03_hist_n4_k3', 'piecewise', 'segments N = 4, history length 3', False, EV_FNS)]}],
        },
        'probe': True,
        'level': 'other',
        'explanation': 'Representation invariant of PiecewiseEvaluator proved inductive on the real bodies of new() and evaluate(): new() establishes it; from ANY state '
                       'satisfying it, ANY non-NaN query returns the piece direct evaluation selects (with argument x) and re-establishes it. '
                       'Hence all histories of any length. Twice: (1) Verus, unit u_pweval, abstract piece type, ANY number of segments (forward loop with an inductive '
                       'loop invariant; the backward iterator chain enumerate/rev/find_map is outside the Verus subset and is replaced by a call with a trusted contract); '
                       '(2) Kani on the whole real function including that chain, bounded in the number of segments, plus 3-query histories through the public API.',
        'assumptions': [PARAM, FM_ORD,
                        'u_pweval: trusted contract `back_search` for the iterator chain `in_front.iter().enumerate().rev().find_map(..).unwrap_or(front)` of the backward branch '
                        '(new tail = front[c..] with c-1 the largest index in in_front whose end <= x, c = 0 if none); that chain is exercised only by the bounded Kani step harnesses',
                        'u_pweval: rule 11 (break-with-value desugaring) and `pub` fields on the template struct; assume_specification for <[T]>::split_last and f64::is_nan; vstd contracts for split_first, first, '
                        'Option::{map, unwrap_or, expect}, slice range indexing, usize::saturating_sub',
                        'bounded (Kani part): number of segments N <= 4 (quick) / N in 1..6, 8, 10 (thorough); history length is NOT bounded'],
    },
}


TY_NOTE = 'typing axioms ax_ty_*: every f64 field of a crate struct holds some f64 value (compensates a Verus encoding gap; true of Rust)'

PROPS['C07'] = {
    'verus': ['u_polycalc'],
    'kani': {},
    'probe': True,
    'level': 'proof',
    'explanation': 'Verus contracts on the real bodies of Poly0..Poly7::{indefinite,integral} (and the translate impls they call): zero constant term, '
                   'coefficients c_i/(i+1), value at knot.x equals knot.y (exact-real model); client lemma roundtrip_k proves derivative(indefinite(p)) == p '
                   'coefficient-wise from the two contracts alone. evaluate is used through its contract (proved in unit u_polyeval).',
    'assumptions': [FM_NOTE, FM_BITS, TY_NOTE, Z3W,
                    'Evaluate contracts of Poly1..Poly8 are assumed in this unit (external_body) and discharged by the C01 unit u_polyeval',
                    'the step from coefficients c_i/(i+1) to F(b)-F(a) = integral of p is the power rule + fundamental theorem of calculus (textbook mathematics, not machine-checked)',
                    'bit-level lane assertions ([bits]: single IEEE quotient) are secondary: their failure alone is reported only with a concrete failing input'],
}
PROPS['C08'] = {
    'verus': ['u_polycalc'],
    'kani': {},
    'probe': True,
    'level': 'proof',
    'explanation': 'Verus contracts on the real bodies of Poly0..Poly8::derivative: lane i equals (i+1)*c_(i+1) in the exact-real model (degree 0 gives 0), '
                   'with secondary bit-level assertions (lane 0 copied verbatim, every other lane one IEEE product).',
    'assumptions': [FM_NOTE, FM_BITS, TY_NOTE,
                    'Segment/Piecewise::derivative wiring is decided by Kani harnesses when present (bounded in the number of pieces)',
                    'bit-level lane assertions ([bits]) are secondary: their failure alone is reported only with a concrete failing input'],
}


def kset(name, harnesses, jobs=8, timeout=1800, extra=None):
    return {'set': name, 'jobs': jobs, 'timeout': timeout, 'harnesses': harnesses, 'extra': extra or []}


PWD = ['src/piecewise.rs: impl HasDerivative for Piecewise<T> :: derivative', 'src/piecewise.rs: impl HasDerivative for Segment<T> :: derivative']
PROPS['C08']['kani'] = {
    'quick': [kset('c08', hs('c08_pwderiv_n', 'piecewise', [1, 2, 3, 4, 20], 'pieces N = {n}', PWD) + [H('c15_segment_ops', 'piecewise', None, True, PWD[1:])])],
    'thorough': [kset('c08', hs('c08_pwderiv_n', 'piecewise', [1, 2, 3, 4, 20], 'pieces N = {n}', PWD) + [H('c15_segment_ops', 'piecewise', None, True, PWD[1:])])],
}
PROPS['C08']['level'] = 'other'
PROPS['C08']['verus'] = ['u_polycalc', 'u_segment']
PROPS['C08']['assumptions'] += [PARAM, 'bounded: Piecewise::derivative wiring checked for N <= 4 and N = 20 pieces (Kani, loops unwound)']
PROPS['C08']['explanation'] += (' Piecewise/Segment::derivative wiring: Kani harness with recording OpTag pieces: same number of pieces, same order, '
                                'every breakpoint bit-identical, each piece differentiated exactly once (N <= 4; Segment level loop-free, complete).')

INT_FNS = ['src/piecewise.rs: Segment::integral_iter_ref', 'src/piecewise.rs: Segment::integral_iter',
           'src/piecewise.rs: impl HasIntegral for Piecewise<T> :: integral', 'src/piecewise.rs: impl HasIntegral for Piecewise<T> :: indefinite',
           'src/piecewise.rs: impl HasIntegral for Segment<T> :: integral']


def c11_set(ns):
    out = []
    for pre, f in (('c11_integral_n', INT_FNS[2:3]), ('c11_iter_ref_n', INT_FNS[0:1]), ('c11_iter_n', INT_FNS[1:2]), ('c11_indefinite_n', INT_FNS[3:4])):
        out += hs(pre, 'piecewise', [n for n in ns if n != 20], 'pieces N = {n}', f)
    out += [H('c11_integral_n20', 'piecewise', 'pieces N = 20', False, INT_FNS[2:3])]
    out += [H('c11_integral_tiny_n3', 'piecewise', 'pieces N = 3; ordinates are multiples of 2^-60 (tiny magnitudes)', False, INT_FNS[2:3] + INT_FNS[4:5]),
            H('c11_iter_tiny_n2', 'piecewise', 'pieces N = 2; ordinates are multiples of 2^-60', False, INT_FNS[1:2]),
            H('c11_indefinite_tiny_n3', 'piecewise', 'pieces N = 3; ordinates are multiples of 2^-60', False, INT_FNS[3:4]),
            H('c11_iter_filter_n3', 'piecewise', 'pieces N = 3; input iterator with an inexact size hint (filter)', False, INT_FNS[1:2]),
            H('c11_iter_ref_filter_n3', 'piecewise', 'pieces N = 3; input iterator with an inexact size hint (filter)', False, INT_FNS[0:1]),
            H('c11_iter_nth_n3', 'piecewise', 'pieces N = 3; by-value iterator consumed with nth(2)', False, INT_FNS[1:2]),
            H('c11_iter_ref_nth_n3', 'piecewise', 'pieces N = 3; by-reference iterator consumed with nth(2)', False, INT_FNS[0:1])]
    if 20 in ns:
        out += [H('c11_indefinite_n20', 'piecewise', 'pieces N = 20', False, INT_FNS[3:4]), H('c11_iter_n20', 'piecewise', 'pieces N = 20', False, INT_FNS[1:2])]
    return out + [H('c11_empty', 'piecewise', None, True, INT_FNS[2:4])]


PROPS['C11'] = {
    'verus': ['u_segment'],
    'kani': {'quick': [kset('c11', c11_set([1, 2, 3, 4]))], 'thorough': [kset('c11', c11_set([1, 2, 3, 4, 20]), timeout=6000)]},
    'probe': True,
    'level': 'other',
    'explanation': 'Per piece (Verus, unit u_segment, real bodies, ANY piece type satisfying the trait contracts): Segment::integral(knot) keeps the breakpoint, returns the piece\'s '
                   'indefinite integral moved vertically by a constant (antideriv_of) and its value at knot.x is knot.y; Segment::indefinite keeps the breakpoint and the zero constant; '
                   'Segment::translate / evaluate delegate to the piece. The closures returned by integral_iter_ref and integral_iter are state machines over the running knot: '
                   'vgen rule 14 extracts each closure body as a step function and Verus proves (step_pre => step_post, ANY piece type): the produced piece is an antiderivative of '
                   'the input piece through the incoming knot with the same breakpoint, and the outgoing knot is (end, F(end)); lemma_c11_continuous: two consecutive steps agree in '
                   'value at the interior breakpoint - by induction lists of any length; both iterators have the same step contract. Wiring (initial knot, map: lazy, in order; collect): '
                   'Kani harnesses on the real integral_iter, integral_iter_ref, Piecewise::integral and Piecewise::indefinite with recording pieces '
                   '(STag -> ITag{id,k}, evaluate logs its argument): same number/order of pieces and bit-identical breakpoints, piece 0 anchored at the '
                   'given knot (indefinite: untranslated), piece i anchored at (end_{i-1}, F_{i-1}(end_{i-1})) so adjacent pieces agree at every interior '
                   'breakpoint; by-value and by-reference iterators satisfy the same contract; empty input gives empty output.',
    'assumptions': [PARAM, FM_NOTE, 'u_segment: vgen rule 14 (closure body as step function) for integral_iter_ref / integral_iter: the wrapper (`let mut knot = knot0; segments.into_iter().map(..)`) is NOT verified by Verus, pinned by normalised sha256, decided by the Kani harnesses; rule 15 renames the local `int` (reserved in Verus) to `int_`; step_pre includes the data condition that every antiderivative of the piece is defined at its end (polynomials: always, log-polynomials: positive breakpoints)',
                    'bounded (Kani wiring): number of pieces N <= 4 and N = 20 (integral; thorough also indefinite and the by-value iterator); iterators consumed with collect and with nth',
                    'u_segment models `Translate` with `Evaluate` as a supertrait (in /repo the two traits are independent; every type implementing Translate also implements Evaluate) and states its contract through '
                    'a spec relation shifted_by + trait lemma (value raised by c at every point of the domain); the concrete piece types discharge indefinite/translate/evaluate in C07, C09, C14, C01',
                    'that each concrete piece type integrates to an antiderivative through its knot is C07 (polynomials) and C09 (log-polynomials)',
                    'the recording piece uses exactly representable small integers for ordinates so that the chain relation is exact'],
}


def c12_set(names):
    f = ['src/piecewise.rs: Piecewise::evaluate_v']
    return [H(n, 'piecewise', ('breakpoints on the concrete grid 0,0,1,1,2,..; exact size hint; ' if 'long' in n else '') + 'segments N, arguments K = ' + n.split('_', 1)[1], False, f) for n in names]


PROPS['C12'] = {
    'verus': ['u_evalv'],
    'kani': {'quick': [kset('c12', c12_set(['c12_n1_k3', 'c12_n2_k3', 'c12_n3_k3', 'c12_n4_k3', 'c12_n5_k2', 'c12_n6_k2', 'c12_long_n24_k2', 'c12_long_n17_k3']))],
             'thorough': [kset('c12', c12_set(['c12_n1_k3', 'c12_n2_k3', 'c12_n3_k3', 'c12_n4_k3', 'c12_n3_k4', 'c12_n4_k4', 'c12_n5_k2', 'c12_n6_k2', 'c12_n8_k2', 'c12_n12_k2', 'c12_long_n24_k2', 'c12_long_n17_k3']), timeout=6000)]},
    'probe': True,
    'level': 'other',
    'explanation': 'Verus (unit u_evalv): the body of the closure that evaluate_v returns is extracted mechanically as a step function (vgen rule 14: the captured '
                   'cursor prev_seg becomes a local initialised from a parameter and is returned with the value) and proved, for an abstract piece type, ANY number of '
                   'segments and EVERY non-NaN argument, against the contract: from any state satisfying the cursor invariant ev_inv (before the first argument the '
                   'cursor is 0, afterwards it is sel(segments, m) for the running maximum m) the step returns segments[sel(segments, max(m, x))].poly.ev(x), '
                   're-establishes ev_inv for max(m, x), and when x is not below m the result is exactly what the contract of Piecewise::evaluate gives for x. '
                   'Inductive in ev_inv, hence every argument sequence of any length. The wrapper around the closure (assert!, `let mut prev_seg = 0`, '
                   '`xs.into_iter().map(..)`: laziness, order, one output per input) is outside the Verus subset: its text is pinned by hash and it is decided by the '
                   'Kani harnesses on the real evaluate_v with recording Tag pieces and a counting input iterator (output k is produced after exactly k+1 inputs '
                   'were pulled), bounded in N and K.',
    'assumptions': [PARAM, FM_BITS, FM_ORD,
                    'u_evalv: vgen rule 16 (the closure `|i| i + prev_seg` passed to map_or is annotated mechanically with its own body as contract); vgen rule 14 (closure body as step function); the wrapper text of evaluate_v (initial cursor 0, non-empty assert, Iterator::map) is NOT verified by Verus: pinned by normalised sha256, an edit there makes the unit undecided and leaves the decision to the Kani harnesses',
                    'trusted contracts (assume_specification) for <slice::Iter as Iterator>::position and Option::map_or; vstd contracts for Vec range indexing, slice::iter, Vec indexing, Vec::len',
                    'contracts of Piecewise::evaluate and Segment::evaluate are assumed in u_evalv and proved in u_pwsel',
                    'bounded (Kani part: wrapper, laziness): (N segments, K arguments) in {(1..4,3), (5,2), (6,2)} with symbolic breakpoints and (24,2), (17,3) on the concrete breakpoint grid 0,0,1,1,2,.. with an exact size hint (quick); plus (3,4), (4,4), (8,2), (12,2) (thorough)'],
}


def c13_set(pairs):
    f = ['src/piecewise.rs: impl Add<&Piecewise<T>> for &Piecewise<T> :: add', 'src/piecewise.rs: impl Sub<&Piecewise<T>> for &Piecewise<T> :: sub']
    out = []
    for (n, m) in pairs:
        out.append(H(f'c13_add_{n}_{m}', 'piecewise', f'operand sizes {n}+{m}', False, f[:1]))
        out.append(H(f'c13_sub_{n}_{m}', 'piecewise', f'operand sizes {n}+{m}', False, f[1:]))
    return out


PROPS['C13'] = {
    'verus': ['u_merge'],
    'kani': {'quick': [kset('c13', c13_set([(1, 1), (1, 2), (2, 1), (2, 2), (1, 3), (3, 1), (2, 3), (3, 2), (3, 3)]))],
             'thorough': [kset('c13', c13_set([(1, 1), (1, 2), (2, 1), (2, 2), (1, 3), (3, 1), (2, 3), (3, 2), (3, 3)]) +
                               [H('c13_add_4_4', 'piecewise', 'operand sizes 4+4'), H('c13_sub_4_4', 'piecewise', 'operand sizes 4+4'),
                                H('c13_add_2_4', 'piecewise', 'operand sizes 2+4'), H('c13_sub_4_2', 'piecewise', 'operand sizes 4+2')], timeout=10000)]},
    'probe': True,
    'level': 'proof',
    'explanation': 'Verus proves the real merge loops of `&f + &g` and `&f - &g` (unit u_merge; abstract piece type, operands of ANY size): under wfs(f), wfs(g) '
                   '(non-empty, non-NaN, non-decreasing ends) the loop terminates without panic (indexing, unwrap of partial_cmp, arithmetic) and the result r satisfies merged(f,g,r): '
                   'non-empty, non-NaN non-decreasing ends each equal (bit for bit) to an end of f or g, at most len f + len g - 1 pieces, and for every real position x the piece '
                   'selected in r is op(piece of f selected at x, piece of g selected at x). Loop invariant merge_inv (everything consumed lies at or below the last pushed end, '
                   'the next ends lie at or above it, the pieces pushed so far are right below it). Cross-check on the compiled crate: '
                   'Kani harnesses on the real merge loops of &f + &g and &f - &g with pair-recording pieces: for symbolic sorted non-NaN ends of both '
                   'operands and every non-NaN x, the result is non-empty, has non-decreasing non-NaN breakpoints each bit-equal to a breakpoint of f or g, '
                   'has at most len(f)+len(g)-1 pieces, and the piece selected at x combines exactly the pieces of f and g selected at x. One harness per '
                   'pair of operand sizes.',
    'assumptions': [FM_BITS, FM_ORD, PARAM,
                    'the piece operation `&a.poly + &b.poly` (resp. `-`) cannot be typed by the Verus front end under `&T: Add<&T>`; extraction wraps it in an external_body function '
                    'whose body is that expression and whose contract names the result pop(a,b) (uninterpreted): what the piece operation computes is C14, not C13',
                    'trusted: partial_cmp on f64 returns None iff a NaN is involved, otherwise the order of the two values (axiom ax_pcmp on vstd\'s partial_cmp_ensures hook); vstd contracts for Vec::push/with_capacity/indexing, usize::min, Option::unwrap',
                    'operand sizes: len f + len g < 2^31 (no usize overflow)',
                    'Kani cross-check bounded: operand sizes up to 3+3 (quick) / 4+4 (thorough)'],
}


def c15_set(ns):
    out = []
    fs = {'mul': 'impl Mul<f64> for Piecewise<T> :: mul', 'mulassign': 'impl MulAssign<f64> for Piecewise<T> :: mul_assign',
          'neg': 'impl Neg for Piecewise<T> :: neg', 'translate': 'impl Translate for Piecewise<T> :: translate'}
    for op, f in fs.items():
        out += hs(f'c15_{op}_n', 'piecewise', ns, 'pieces N = {n}', ['src/piecewise.rs: ' + f])
    out.append(H('c15_segment_ops', 'piecewise', None, True, ['src/piecewise.rs: Segment::{mul, mul_assign (x2), translate, derivative}']))
    out.append(H('c15_poly1_neg_n3', 'piecewise', 'pieces N = 3 over Poly1, every finite coefficient', False, ['src/piecewise.rs: impl Neg for Piecewise<T> :: neg']))
    out.append(H('c15_poly1_translate_n2', 'piecewise', 'pieces N = 2 over Poly1, every finite coefficient and shift', False, ['src/piecewise.rs: impl Translate for Piecewise<T> :: translate']))
    # the operation on the piece types that are themselves generic wrappers (shared with C14)
    out.append(H('c14_log_wrapper', 'log_poly', None, True, ['src/log_poly.rs: Log<T>::{mul, mul_assign, translate}']))
    out.append(H('c14_intoflog_wrapper', 'log_poly', SMALL + '; scalar in {2, -1, 0.5, 0}', False, ['src/log_poly.rs: IntOfLog<T>::{add, neg, mul, mul_assign, translate}']))
    return out


PROPS['C15'] = {
    'verus': ['u_segment'],
    'kani': {'quick': [kset('c15', c15_set([1, 2, 3, 4, 20]), extra=['--solver', 'kissat'])], 'thorough': [kset('c15', c15_set([1, 2, 3, 4, 5, 8, 20]) + [H('c15_poly1_translate_n3', 'piecewise', 'pieces N = 3 over Poly1', False, [])], timeout=6000, extra=['--solver', 'kissat'])]},
    'probe': True,
    'level': 'other',
    'explanation': 'Kani harnesses on the real Piecewise::{mul, mul_assign, neg, translate} and the Segment-level operations with recording OpTag pieces: '
                   'number of pieces, order and every breakpoint (any f64 bits) unchanged; every piece received the operation exactly once with the given '
                   'scalar and nothing else. Segment level is loop-free (complete); Piecewise level bounded in N.',
    'assumptions': [PARAM, 'bounded: N <= 4 and N = 20 pieces for the Piecewise-level loops (recording pieces); real Poly1 pieces N = 3 (neg) / N = 2 (translate); thorough also N = 5, 8',
                    'that the operation on each concrete piece type acts pointwise is C14'],
}


PROPS['C09'] = {
    'verus': ['u_log'],
    'kani': {},
    'probe': True,
    'level': 'proof',
    'explanation': 'Verus contracts on the real bodies of Log<Poly0..Poly8>::{indefinite, integral}, IntOfLog<T>::{evaluate, translate} and '
                   'IntOfLogPoly4::{evaluate, translate}: evaluate returns k + v*q(ln v) (postcondition taken from the property, not from the code); '
                   'indefinite returns k = 0 and coefficients with q_K = p_K, q_i + (i+1) q_{i+1} = p_i (quartic: a=-p0, 2b=a+p1, 3c=b-p2, 4d=c+p3, u=24(d-p4), '
                   'with lemma_quartic_is_antiderivative_form reducing it to the same recurrence); integral(knot) additionally satisfies F(knot.x) == knot.y. '
                   'Exact-real float model, ln/exp uninterpreted with the axioms listed.',
    'assumptions': [FM_NOTE, FM_BITS, TY_NOTE, Z3W,
                    'Evaluate contracts of Poly0..Poly8 are assumed in this unit (external_body) and discharged by the C01 unit u_polyeval',
                    'calculus step d/dt[t*q(ln t)] = q(ln t) + q\'(ln t) = sum (q_i + (i+1) q_{i+1}) (ln t)^i is textbook mathematics, not machine-checked',
                    'for the quartic form the antiderivative claim uses the closed-form tail (exact outside the thresholds; inside them the 16-term series differs by the truncation error, see C10)'],
}
PROPS['C10'] = {
    'verus': ['u_log'],
    'kani': {},
    'probe': True,
    'level': 'other',
    'explanation': 'Decided (Verus, exact-real model, real bodies): IntOfLogPoly4::evaluate returns k + v*(sum_{j=1..4} c_j x^j + u x^5 T(x)) with x = -ln v; '
                   'T is the 16-term series sum_{m<16} x^m/(m+5)! (all 16 literal constants checked as exact reciprocals of factorials) strictly inside the two '
                   'thresholds (the doubles nearest -1.71 and 1.72) and T*x^5 = e^x - sum_{j<5} x^j/j! outside (including the recip().recip() detour). '
                   'NOT decided by any contract: the floating-point accuracy claim (error <= 1e-12 * sum of magnitudes) and the size of the jump at the switch points in '
                   'floating point; these are unchecked assumptions of this check. The native probe evaluates that accuracy clause on a dense battery only when an '
                   'obligation fails, to produce a concrete input.',
    'assumptions': [FM_NOTE, FM_BITS, TY_NOTE, Z3W,
                    'UNCHECKED: floating-point accuracy 1e-12 (cancellation analysis of exp(x)-1-... near the thresholds) - no installed verifier has float semantics for it',
                    'UNCHECKED: truncation error of the 16-term series on (-1.71, 1.72) (Lagrange remainder of exp; analytic fact)',
                    'a change that only moves the thresholds inward/outward keeps both branch formulas valid and is invisible to the contracts'],
}
PROPS['C14'] = {
    'verus': ['u_ops', 'u_polycalc', 'u_log', 'u_polyn'],
    'kani': {
        'quick': [kset('c14',
                       [H(f'c14_translate_poly{k}', 'poly', SMALL if k else None, k == 0, [f'src/poly.rs: impl Translate for Poly{k} :: translate']) for k in range(0, 9)] +
                       [H(f'c14_translate_polyn_{n}', 'poly', f'length {n}', False, ['src/poly.rs: impl Translate for PolyN :: translate']) for n in (0, 1, 3)] +
                       [H(f'c14_mulassign_poly{k}', 'poly', SMALL + '; scalar in {0, -1, 2, 0.5, 3}', False,
                          [f'src/poly.rs: impl MulAssign<f64> for Poly{k} :: mul_assign']) for k in range(0, 9)] +
                       [H(f'c14_mulassign_full_poly{k}', 'poly', 'any finite coefficients; scalar in {2, -1}', False,
                          [f'src/poly.rs: impl MulAssign<f64> for Poly{k} :: mul_assign']) for k in range(1, 9)] +
                       [H('c14_log_wrapper', 'log_poly', None, True, ['src/log_poly.rs: Log<T>::{mul, mul_assign, translate}']),
                        H('c14_intoflog_wrapper', 'log_poly', SMALL + '; scalar in {2, -1, 0.5, 0}', False, ['src/log_poly.rs: IntOfLog<T>::{add, neg, mul, mul_assign, translate}']),
                        H('c14_quartic_add_sub', 'log_poly', SMALL, False, ['src/log_poly.rs: IntOfLogPoly4::{add, sub, translate} and the by-reference add/sub'])],
                       timeout=2400, extra=['--solver', 'kissat'])],
    },
    'probe': True,
    'level': 'other',
    'explanation': 'Verus contracts (exact-real model + secondary bit-level lane assertions) on the real bodies of Mul<f64>, Neg, Add for Poly0..Poly8 and '
                   'IntOfLogPoly4::{Mul, Neg}, and of translate for Poly0..Poly8, IntOfLog<T>, IntOfLogPoly4: every lane is s*c, -c, c1+c2; translate changes the additive '
                   'constant only. Pointwise corollaries proved from the lane contracts alone for every degree and every real X: lemma_scale_value_k ((s f)(X) = s f(X)), '
                   'lemma_add_value_k ((f+g)(X) = f(X)+g(X)), lemma_translate_value_k (translate raises the value by c at every X). PolyN::translate (unit u_polyn, real body with get_mut/push, FM-bits only, ANY length): an empty vector becomes [c]; otherwise lane 0 is the single IEEE sum of c_0 and c and the length and all other lanes are unchanged. Kani (bit-precise, compiled crate): translate of every PolyK and PolyN (empty -> constant c), `*=` equals `*` lane by lane for a finite '
                   'scalar set and integer-valued coefficients; the generic wrappers Log<T>/IntOfLog<T> with a recording piece type; IntOfLogPoly4 +/- by value and by reference.',
    'assumptions': [FM_NOTE, FM_BITS, TY_NOTE,
                    'bounded (Kani): `*=`, the IntOfLog<T> wrapper and IntOfLogPoly4 +/- are checked for integer-valued operands in [-100,100] and scalars from {0, -1, 2, 0.5, 3}; PolyN::translate for lengths 0, 1, 3 (Kani cross-check; the Verus unit u_polyn is unbounded)',
                    'u_polyn: vstd contracts for Vec::get_mut (mutable reference into the vector) and Vec::push; rule 4 written as an explicit substitution (`*x0 += v` -> `*x0 = *x0 + v`); the lane-0 sum is accepted in either operand order',
                    PARAM + ' (used for the generic wrappers Log<T>, IntOfLog<T>)',
                    'bit-level lane assertions ([bits]) are secondary: their failure alone is reported only with a concrete failing input'],
}
PROPS['C14']['kani']['thorough'] = [dict(PROPS['C14']['kani']['quick'][0], timeout=6000, harnesses=PROPS['C14']['kani']['quick'][0]['harnesses'] + [H('c14_quartic_add_sub_full', 'log_poly', 'any finite numbers (about 16 min)', False, ['src/log_poly.rs: IntOfLogPoly4::{add, sub}'])])]


SPL = ['src/spline.rs: constrained_spline (zip/chain/skip wiring)']
PROPS['C04'] = {
    'verus': ['u_spline'],
    'kani': {
        'quick': [kset('c04', [H(f'c04_wiring_{side}_n{n}', 'spline', f'{n} knots; knot coordinates are the integers 0..15; f_dx and segment replaced by recording stubs', False, SPL)
                               for side in ('left', 'right') for n in (3, 4, 5)] +
                       [H(f'c04_wiring_{side}_n{n}', 'spline', f'{n} knots; abscissae are the integers 0..{n-1}, ordinates the integers 0..15; f_dx and segment replaced by recording stubs', False, SPL)
                        for side, n in (('right', 12), ('left', 20))], timeout=2400, extra=['-Z', 'stubbing', '--solver', 'kissat'])],
        'thorough': [kset('c04', [H(f'c04_wiring_{side}_n{n}', 'spline', f'{n} knots; knot coordinates are the integers 0..15; f_dx and segment replaced by recording stubs', False, SPL)
                                  for side in ('left', 'right') for n in (3, 4, 5, 6)] +
                          [H(f'c04_wiring_{side}_n{n}', 'spline', f'{n} knots; abscissae are the integers 0..{n-1}, ordinates the integers 0..15; f_dx and segment replaced by recording stubs', False, SPL)
                           for side in ('left', 'right') for n in (12, 20)], timeout=6000, extra=['-Z', 'stubbing', '--solver', 'kissat'])],
    },
    'probe': True,
    'level': 'other',
    'explanation': 'Verus contracts on the real bodies of spline::f_dx (result == 0 where the adjacent secant slopes differ in sign or one is zero, else their harmonic mean '
                   '2 s01 s12/(s01+s12)) and spline::segment (end == right abscissa verbatim; the cubic passes through both knots and has the two prescribed end slopes), '
                   'exact-real model, all finite knots with x0 != x1. Kani (stubbing f_dx and segment by recording functions) checks the wiring of constrained_spline on the '
                   'compiled crate: one cubic per interval, cubic i built from knots i, i+1 and slopes f_i, f_{i+1}; interior f_i = f_dx(k_{i-1}, k_i, k_{i+1}); end slopes '
                   '= 3/2 * end secant - 1/2 * neighbouring slope (bit-equal to the property\'s formula). Together: interpolation, C1 joins with the harmonic-mean slope.',
    'assumptions': [FM_NOTE, FM_BITS, TY_NOTE, Z3W,
                    'bounded (Kani wiring): 3..5 knots with coordinates in 0..15, 12 and 20 knots with abscissae 0..N-1 and ordinates in 0..15 (quick: right/12, left/20; thorough: 3..6 and both sides of 12, 20); the numeric kernels are stubbed there and proved separately by Verus',
                    'UNCHECKED: the floating-point deviation bound (small multiple of 2^-53 scaled by the conditioning (|x|/dx)^3) - exact arithmetic only'],
}
PROPS['C05'] = {
    'verus': ['u_spline', 'u_shape_ident', 'u_shape'],
    'kani': PROPS['C04']['kani'],
    'probe': True,
    'level': 'other',
    'explanation': 'Over the contracts of C04 (f_dx == Kruger slope; segment == the Hermite cubic through both knots with the prescribed end slopes; wiring by Kani), '
                   'Verus proves for all real secant slopes: the interior-knot slope is 0 whenever the adjacent secants differ in sign or either is 0, otherwise it lies '
                   'between 0 and twice each adjacent secant (lemma_kruger_range); the end-knot slope 3/2 s - 1/2 f lies between s/2 and 3s/2 (lemma_end_slope_range); hence on '
                   'every interval both end-slope ratios f/secant are in [0,3] and vanish with the secant (lemma_c05_slope_ratios). lemma_hermite_monotone (units u_shape_ident + '
                   'u_shape) then proves, for EVERY real point x0 + t(x1-x0), t in [0,1], of a cubic satisfying the four Hermite conditions of the segment contract with those '
                   'ratios: the slope never has the sign opposite to the secant (monotone) and (p(x)-y0)(y1-p(x)) >= 0 (between the two ordinates) - the Fritsch-Carlson '
                   'condition, machine-checked. Composed in u_spline: lemma_c05_segment_monotone (any Segment<Poly3> satisfying the postcondition of `segment` with such slopes is monotone between its knots) and lemma_c05_interior/first/last_piece_monotone (with the Kruger / end-slope formulas the other contracts give). Collinear knots: all secants equal s, every prescribed slope equals s, and the four Hermite conditions then force the line. '
                   'Coincidence with the exact Kruger spline: the four Hermite conditions determine the cubic uniquely.',
    'assumptions': [FM_NOTE, FM_BITS, TY_NOTE, Z3W,
                    'two Z3 configurations are needed (identities: smt.arith.nl via tools/z3wrap.sh; inequalities: Verus own nonlinear options); the 8 identity lemmas are proved in unit '
                    'u_shape_ident and imported into u_shape with #[verifier::external_body] by mechanically copied signature (//@assume-lemma)',
                    'lemma_hermite_monotone is proved in u_shape (plain Verus nonlinear options) and imported into u_spline by mechanically copied signature together with the copied definitions of cub/dcub '
                    '(//@assume-spec) and a checked-identical ratio_in (//@same-spec); there lemma_c05_segment_monotone instantiates it with the contract of `segment`, and '
                    'lemma_c05_{interior,first,last}_piece_monotone with the slopes the contracts of f_dx / the end-slope formula give (all checked lemmas). Which knots and slopes '
                    'constrained_spline passes to `segment` is the Kani wiring (bounded)',
                    'bounded (Kani wiring): as C04', 'UNCHECKED: floating-point rounding bound (exact arithmetic only)'],
}
LIN = ['src/linear.rs: linear (closure over the running forced knot)', 'src/linear.rs: incr_linear']
PROPS['C06'] = {
    'verus': ['u_linear'],
    'kani': {
        'quick': [kset('c06', [H(f'c06_wiring_{side}_n{n}', 'linear', f'{n} knots, every finite f64 coordinate; segment replaced by a recording stub', False, LIN)
                               for side in ('left', 'right') for n in (2, 3, 4, 5, 12, 24)], timeout=1800, extra=['-Z', 'stubbing'])],
    },
    'probe': True,
    'level': 'other',
    'explanation': 'Verus contracts on the real bodies of linear::segment (end == right abscissa verbatim; narrower than machine epsilon: constant at the left ordinate, '
                   'otherwise slope dy/dx; always through the left knot, and through the right knot when at least epsilon wide) and linear::incr_linear (forced knot = '
                   '(max of the abscissae, ordinate verbatim), returns segment(previous forced knot, forced knot)). Kani (segment stubbed by a recording function, full-range '
                   'finite f64 knots) checks linear(): one segment per consecutive pair, segment i built from forced knots i and i+1, ends are the running maximum.',
    'assumptions': [FM_NOTE, FM_BITS, FM_ORD, TY_NOTE,
                    'extraction writes f64::EPSILON as the literal 2.220446049250313e-16 (the same double; Verus has no spec for the constant)',
                    'contracts of Poly0::indefinite, Poly1::translate, Poly1::evaluate are assumed here and proved in units u_polycalc / u_polyeval',
                    'bounded (Kani wiring): 2..5, 12 and 24 knots', 'that evaluation between two knots picks the right segment is C02'],
}
PROPS['C06']['kani']['thorough'] = PROPS['C06']['kani']['quick']


TINY = 'numbers are integer-valued doubles in [-8,8]; epsilon in {0,1}; (epsilon,max_relative) in {(0,0.5),(1,0)}'


def c17_set(full):
    out = [H(f'c17_poly{k}', 'poly', TINY, False, [f'src/poly.rs: impl AbsDiffEq/RelativeEq for Poly{k}']) for k in range(0, 9)]
    out += [H(n, 'poly', TINY + '; lengths ' + n[len('c17_polyn_'):].replace('_', ' vs '), False, ['src/poly.rs: impl AbsDiffEq/RelativeEq for PolyN'])
            for n in ('c17_polyn_2_2', 'c17_polyn_2_3', 'c17_polyn_0_1', 'c17_polyn_0_0')]
    out += [H('c17_log_wrappers', 'log_poly', TINY, False, ['src/log_poly.rs: impl AbsDiffEq/RelativeEq for Log<T>, IntOfLog<T>']),
            H('c17_quartic', 'log_poly', TINY, False, ['src/log_poly.rs: impl AbsDiffEq/RelativeEq for IntOfLogPoly4'])]
    sizes = ['1_1', '2_2', '1_2', '2_1', '0_1', '0_0'] + (['3_3'] if full else [])
    out += [H(f'c17_pw_{s}', 'piecewise', TINY + '; numbers of pieces ' + s.replace('_', ' vs '), False,
              ['src/piecewise.rs: impl AbsDiffEq/RelativeEq for Segment<T>, Piecewise<T>']) for s in sizes]
    return out


PROPS['C17'] = {
    'verus': ['u_approx'],
    'kani': {'quick': [kset('c17', c17_set(False), timeout=2400, extra=['--solver', 'kissat'])],
             'thorough': [kset('c17', c17_set(True), timeout=6000, extra=['--solver', 'kissat'])]},
    'probe': True,
    'level': 'other',
    'explanation': 'Twice. (1) Verus, unit u_approx: the real bodies of all 60 approx-trait functions (default_epsilon, abs_diff_eq, default_max_relative, relative_eq of 15 types) are verified, for ALL values, ALL tolerances and generic piece types, against the contract "result == conjunction of the f64-level relation over every corresponding number, and equal lengths for PolyN / Piecewise"; the approx crate\'s own impls for f64, arrays/slices and Vec are trusted contracts read off its source. (2) Kani harnesses through the real approx crate (this also exercises the dependency\'s slice/array impls that (1) trusts): for every type implementing the approx traits (Poly0..Poly8, PolyN, Log<T>, IntOfLog<T>, IntOfLogPoly4, '
                   'Segment<T>, Piecewise<T>) abs_diff_eq and relative_eq equal the conjunction of f64::abs_diff_eq / f64::relative_eq over every corresponding pair of '
                   'numbers (coefficients, additive constants, breakpoints) under the same tolerances, and PolyN / Piecewise of different lengths are never approximately '
                   'equal. Reflexivity, symmetry, implication by == and sensitivity to a single perturbed number follow from the conjunction form.',
    'assumptions': ['u_approx: approx traits declared in the template with Rhs = Self and without the PartialEq supertrait (RelativeEq impl headers of Log/IntOfLog/Piecewise carry the implied `T: PartialEq` explicitly); trusted contracts for the dependency\'s impls: f64 (uninterpreted relations f_ade/f_rel, default = f_eps()), [A; N] and Vec<A> (equal length && element relation at every index), as in approx-0.5.1 src/abs_diff_eq.rs and src/relative_eq.rs',
                    'bounded: ' + TINY + ' (float comparison against products is intractable for CBMC on full-range doubles)',
                    'bounded: PolyN lengths <= 3, Piecewise pieces <= 2 (quick) / 3 (thorough); wrappers instantiated with Poly1',
                    'the conjunction oracle calls f64::abs_diff_eq / relative_eq of the approx crate itself (trusted as the meaning of the tolerances)'],
}


def mp(name, module, what):
    return H(name, module, None, True, [what], mustpanic=True)


PROPS['C16'] = {
    'verus': ['u_pwsel', 'u_merge', 'u_pweval'],
    # units of the other properties: only their panic-class obligations (assert!, index/overflow/division, exec-callee preconditions) count here
    'verus_panic_only': ['u_evalv', 'u_polyn', 'u_approx', 'u_segment', 'u_linear', 'u_spline', 'u_polycalc', 'u_log', 'u_ops', 'u_polyeval'],
    'kani': {
        'quick': [kset('c16',
                       hs('c02_direct_n', 'piecewise', [1, 2, 3, 4, 9], 'segments N = {n}; every f64 argument', PW_EVAL) +
                       [H(f'c14_translate_polyn_{n}', 'poly', f'length {n} (no panic, empty included)', False, ['src/poly.rs: impl Translate for PolyN :: translate']) for n in (0, 1, 3)] +
                       hs('c16_step_anyf64_n', 'piecewise', [1, 2, 3, 4], 'segments N = {n}; any state satisfying the invariant, every f64 query (NaN included)', EV_FNS[1:]) +
                       [H('c16_hist_anyf64_n3_k3', 'piecewise', 'N = 3, 3 queries from a fresh evaluator, every f64 (NaN at any position)', False, EV_FNS),
                        H('c16_evaluate_v_anyf64_n3_k3', 'piecewise', 'N = 3, 3 arguments, every f64', False, ['src/piecewise.rs: Piecewise::evaluate_v']),
                        H('c13_add_2_2', 'piecewise', 'operand sizes 2+2 (no panic on finite well-formed operands)'),
                        H('c13_sub_2_2', 'piecewise', 'operand sizes 2+2 (no panic on finite well-formed operands)'),
                        H('c13_add_1_2', 'piecewise', 'operand sizes 1+2'), H('c13_sub_2_1', 'piecewise', 'operand sizes 2+1'),
                        mp('c16_direct_empty_mustpanic', 'piecewise', 'documented rejection: empty piecewise function (evaluate)'),
                        mp('c16_evaluator_empty_mustpanic', 'piecewise', 'documented rejection: empty piecewise function (PiecewiseEvaluator::new)'),
                        mp('c16_evaluate_v_empty_mustpanic', 'piecewise', 'documented rejection: empty piecewise function (evaluate_v)'),
                        mp('c16_add_nan_end_mustpanic', 'piecewise', 'documented rejection: NaN breakpoint in +'),
                        mp('c16_linear_one_knot_mustpanic', 'linear', 'documented rejection: fewer than 2 knots'),
                        mp('c16_linear_no_knots_mustpanic', 'linear', 'documented rejection: fewer than 2 knots'),
                        mp('c16_spline_two_knots_mustpanic', 'spline', 'documented rejection: fewer than 3 knots')])],
    },
    'probe': True,
    'level': 'other',
    'explanation': 'Panic-freedom is an obligation of every unit: Verus proves that the assert! in Piecewise::evaluate cannot fire and that indexing/unwrap are safe for '
                   'every f64 argument and any number of segments, and that the merge loops of + and - cannot panic on well-formed operands of any size, and (u_pweval) that PiecewiseEvaluator::new on a non-empty list and evaluate from any invariant-satisfying state cannot panic, for any number of segments and every f64 query, a NaN query leaving the state untouched (the backward iterator chain is behind a trusted contract there); Kani checks bounds, unwrap, overflow and assert! in the harnesses with UNCONSTRAINED f64 queries '
                   '(NaN, infinities) for direct evaluation, the stateful evaluator (inductive step from any invariant-satisfying state plus 3-query histories) and '
                   'evaluate_v. NaN clause: after any query, NaN included, the evaluator invariant still holds and every non-NaN query is answered like direct '
                   'evaluation. The documented rejections are the only should_panic harnesses.',
    'assumptions': [PARAM, FM_ORD, 'bounded: N <= 4 segments for the Kani part; history length unbounded via the inductive invariant',
                    'panic-freedom of the numeric kernels, the approx impls and the Segment operations on finite input: the Verus units of C01, C04, C06, C07, C08, C09, C11, C14, C17 are re-run here and their '
                    'panic-class obligations (assert!, index/overflow/division, preconditions of exec callees) are counted; their postconditions belong to those properties and are not counted here. '
                    'Iterator-based operations (Piecewise *, *=, neg, translate, derivative, integral, linear, constrained_spline) are covered for panics only by the Kani harnesses of their own properties'],
}
PROPS['C16']['kani']['thorough'] = PROPS['C16']['kani']['quick']


def scan_assumptions(units):
    """Mechanical scan of the templates and preludes for trusted declarations."""
    files = set()
    for u in units:
        p = os.path.join(VERIF, 'verus', u + '.rs')
        files.add(p)
        for ln in open(p):
            if ln.strip().startswith('//@include'):
                files.add(os.path.join(VERIF, 'verus', ln.strip().split()[1]))
    out = []
    for p in sorted(files):
        txt = open(p).read()
        for m in re.finditer(r'(?m)^\s*(?:pub\s+)?(?:broadcast\s+)?(axiom fn\s+\w+|assume_specification[^\n]*?\[\s*[^\]]+\]|#\[verifier::external_body\][^\n]*\n[^\n]*fn\s+\w+|.*\bassume\(|.*\badmit\()', txt):
            s = re.sub(r'\s+', ' ', m.group(1)).strip()
            out.append(f'{os.path.basename(p)}: {s[:110]}')
    if files:
        out.append('literal axioms: one per float literal in the extracted bodies (exact rational value of the IEEE double), generated mechanically')
    return out


# ---- dependency units: functions of other properties' units whose contracts a property is stated over ------------------------------
PW_EV = ['Evaluate for Piecewise<T> :: evaluate', 'Evaluate for Segment<T> :: evaluate']
DEP_NOTE = ('dependency contracts: the units/functions listed under verus_deps belong to other properties; this property is stated over their contracts '
            '(e.g. "what direct evaluation returns"), so their contract-level failures are reported here as well')
PROPS['C03']['verus_deps'] = {'u_pwsel': PW_EV}
PROPS['C12']['verus_deps'] = {'u_pwsel': PW_EV}
PROPS['C13']['verus_deps'] = {'u_pwsel': PW_EV}
PROPS['C06']['verus_deps'] = {'u_pwsel': PW_EV, 'u_polyeval': ['Evaluate for Poly1 :: evaluate'],
                              'u_polycalc': ['HasIntegral for Poly0 :: indefinite', 'Translate for Poly1 :: translate']}
PROPS['C04']['verus_deps'] = {'u_pwsel': PW_EV, 'u_polyeval': ['Evaluate for Poly3 :: evaluate']}
PROPS['C05']['verus_deps'] = {'u_pwsel': PW_EV, 'u_polyeval': ['Evaluate for Poly3 :: evaluate']}
PROPS['C11']['verus_deps'] = {'u_polycalc': ['HasIntegral for', 'Translate for'], 'u_log': ['HasIntegral for', 'Translate for', 'Evaluate for IntOfLog']}
for _p in ('C03', 'C12', 'C13', 'C06', 'C04', 'C05'):
    PROPS[_p]['probe_also'] = ['C02']
for _p in ('C03', 'C12', 'C13', 'C06', 'C04', 'C05', 'C11'):
    PROPS[_p]['assumptions'] = PROPS[_p]['assumptions'] + [DEP_NOTE + ': ' + '; '.join(f"{u}: {', '.join(v)}" for u, v in PROPS[_p]['verus_deps'].items())]
