"""Locate items (impl blocks, modules, fns) in Rust source text by brace matching.

Comments and string/char literals are skipped while matching. Nothing here interprets Rust
beyond what is needed to cut out `fn` signatures and bodies *verbatim*.
"""
import re
import hashlib


class NotFound(Exception):
    pass


def _scan_mask(src):
    """Return a list `code` of booleans: code[i] is True iff src[i] is real code
    (not inside a comment, string or char literal)."""
    n = len(src)
    code = [True] * n
    i = 0
    while i < n:
        c = src[i]
        if c == '/' and i + 1 < n and src[i + 1] == '/':
            j = src.find('\n', i)
            j = n if j < 0 else j
            for k in range(i, j):
                code[k] = False
            i = j
        elif c == '/' and i + 1 < n and src[i + 1] == '*':
            depth = 1
            j = i + 2
            while j < n and depth:
                if src.startswith('/*', j):
                    depth += 1
                    j += 2
                elif src.startswith('*/', j):
                    depth -= 1
                    j += 2
                else:
                    j += 1
            for k in range(i, j):
                code[k] = False
            i = j
        elif c == '"':
            j = i + 1
            while j < n and src[j] != '"':
                j += 2 if src[j] == '\\' else 1
            j += 1
            for k in range(i, min(j, n)):
                code[k] = False
            i = j
        elif c == "'":
            # char literal or lifetime
            m = re.match(r"'(\\.[^']*|[^'\\])'", src[i:])
            if m:
                for k in range(i, i + m.end()):
                    code[k] = False
                i += m.end()
            else:
                i += 1
        else:
            i += 1
    return code


def match_brace(src, code, open_idx):
    """src[open_idx] == '{' (code). Return index of the matching '}'."""
    assert src[open_idx] == '{'
    depth = 0
    for i in range(open_idx, len(src)):
        if not code[i]:
            continue
        if src[i] == '{':
            depth += 1
        elif src[i] == '}':
            depth -= 1
            if depth == 0:
                return i
    raise NotFound('unbalanced braces')


def _norm(s):
    return re.sub(r'\s+', ' ', s).strip()


def strip_comments(text):
    code = _scan_mask(text)
    out = []
    i = 0
    n = len(text)
    while i < n:
        if code[i]:
            out.append(text[i])
            i += 1
        else:
            # keep strings, drop comments
            if text[i] in '"\'':
                j = i
                while j < n and not code[j]:
                    j += 1
                out.append(text[i:j])
                i = j
            else:
                j = i
                while j < n and not code[j] and text[j] != '\n':
                    j += 1
                i = j
                if i < n and text[i] == '\n' and not code[i]:
                    out.append('\n')
                    i += 1
    return ''.join(out)


class Source:
    def __init__(self, path):
        self.path = path
        self.text = open(path).read()
        self.code = _scan_mask(self.text)
        # cut #[cfg(test)] modules out of consideration
        self.test_spans = []
        for m in re.finditer(r'#\[cfg\(test\)\]\s*(?:#\[[^\]]*\]\s*)*mod\s+\w+\s*\{', self.text):
            if not self.code[m.start()]:
                continue
            ob = m.end() - 1
            cb = match_brace(self.text, self.code, ob)
            self.test_spans.append((m.start(), cb))

    def in_test(self, i):
        return any(a <= i <= b for a, b in self.test_spans)

    def line_of(self, idx):
        return self.text.count('\n', 0, idx) + 1

    def blocks(self, kind_regex, lo=0, hi=None):
        """Yield (header_text_normalised, open_brace_idx, close_brace_idx, start_idx) for every
        item whose header matches kind_regex (e.g. r'impl\b' or r'mod\b') between lo and hi."""
        hi = len(self.text) if hi is None else hi
        for m in re.finditer(r'(?m)^[ \t]*((?:pub(?:\([a-z]+\))?\s+)?' + kind_regex + r')', self.text[lo:hi]):
            s = lo + m.start(1)
            if not self.code[s] or self.in_test(s):
                continue
            # header extends to the first code '{' or ';'
            j = s
            while j < hi and not (self.code[j] and self.text[j] in '{;'):
                j += 1
            if j >= hi or self.text[j] == ';':
                continue
            cb = match_brace(self.text, self.code, j)
            yield _norm(strip_comments(self.text[s:j])), j, cb, s

    def find_block(self, kind_regex, header, lo=0, hi=None, occurrence=0):
        want = _norm(header)
        hits = [b for b in self.blocks(kind_regex, lo, hi) if b[0] == want]
        if len(hits) <= occurrence:
            raise NotFound(f'{self.path}: no item with header `{want}` (occurrence {occurrence})')
        return hits[occurrence]

    def find_fn(self, name, lo=0, hi=None):
        """Find `fn name` between lo and hi (top nesting level is not enforced: first hit wins).
        Returns dict(sig, body, start, end, line0, line1) where sig is the text from `fn` up to
        (not including) the body's '{' and body the text between the braces."""
        hi = len(self.text) if hi is None else hi
        for m in re.finditer(r'\bfn\s+' + re.escape(name) + r'\b', self.text[lo:hi]):
            s = lo + m.start()
            if not self.code[s] or self.in_test(s):
                continue
            j = s
            # signature may contain `where` clauses; body starts at first code '{' at paren depth 0
            depth = 0
            while j < hi:
                if self.code[j]:
                    ch = self.text[j]
                    if ch in '(<[':
                        depth += 1 if ch != '<' else 0
                    elif ch in ')]':
                        depth -= 1
                    elif ch == '{' and depth == 0:
                        break
                    elif ch == ';' and depth == 0:
                        j = -1
                        break
                j += 1
            if j < 0 or j >= hi:
                continue
            cb = match_brace(self.text, self.code, j)
            # visibility before fn is kept (attributes are dropped)
            mvis = re.search(r'(pub(?:\([a-z]+\))?\s+)$', self.text[max(0, s - 16):s])
            vis = mvis.group(1) if mvis else ''
            return {
                'sig': vis + self.text[s:j].rstrip(),
                'body': self.text[j + 1:cb],
                'start': s, 'end': cb,
                'line0': self.line_of(s), 'line1': self.line_of(cb),
                'sha256': hashlib.sha256(self.text[s:cb + 1].encode()).hexdigest(),
            }
        raise NotFound(f'{self.path}: fn {name} not found in the given item')


def split_top_level(body, sep=';'):
    """Split a block body at top-level separators (outside (), [], {} and outside comments/strings).
    Returns list of (text, had_separator)."""
    code = _scan_mask(body)
    out = []
    depth = 0
    last = 0
    for i, ch in enumerate(body):
        if not code[i]:
            continue
        if ch in '([{':
            depth += 1
        elif ch in ')]}':
            depth -= 1
        elif ch == sep and depth == 0:
            out.append((body[last:i], True))
            last = i + 1
    rest = body[last:]
    if sep == ';':
        # block-like expression statements (`if .. { } [else { }]`, `match .. { }`, `for/while/loop .. { }`, `{ }`)
        # end at their closing brace when more text follows
        while True:
            m = re.match(r'\s*(?:if|match|for|while|loop|unsafe|\{)', strip_leading_comments(rest))
            if not m:
                break
            off = len(rest) - len(strip_leading_comments(rest))
            rcode = _scan_mask(rest)
            j = off
            end = None
            while True:
                # find next top-level '{'
                depth = 0
                k = j
                while k < len(rest) and not (rcode[k] and rest[k] == '{' and depth == 0):
                    if rcode[k] and rest[k] in '([':
                        depth += 1
                    elif rcode[k] and rest[k] in ')]':
                        depth -= 1
                    k += 1
                if k >= len(rest):
                    break
                cb = match_brace(rest, rcode, k)
                end = cb + 1
                m2 = re.match(r'\s*else\b', rest[end:])
                if m2:
                    j = end + m2.end()
                    continue
                break
            if end is None or not strip_comments(rest[end:]).strip():
                break
            if re.match(r'\s*[.?]', rest[end:]):
                break  # method call on the block value: it is an expression, not a statement
            out.append((rest[:end], True))
            rest = rest[end:]
    out.append((rest, False))
    return out


def strip_leading_comments(t):
    while True:
        t2 = t.lstrip()
        if t2.startswith('//'):
            nl = t2.find('\n')
            t = t2[nl + 1:] if nl >= 0 else ''
        elif t2.startswith('/*'):
            e = t2.find('*/')
            t = t2[e + 2:] if e >= 0 else ''
        else:
            return t2
