#!/usr/bin/env python3
"""Run the registered quick check of the property each seeded change breaks, against a scratch copy of /repo with the change
applied (equivalent to `git -C /repo apply` + check + `git checkout`, but leaves /repo untouched so other work can go on).
Writes /verif/seeded/<id>/detection.json and /verif/seeded/MATRIX.md."""
import os, sys, json, glob, shutil, subprocess, tempfile, time
VERIF = '/verif'
only = sys.argv[1:]
rows = []
for d in sorted(glob.glob(os.path.join(VERIF, 'seeded', 'C*-*'))):
    mid = os.path.basename(d)
    meta = json.load(open(os.path.join(d, 'meta.json')))
    prop = meta['breaks_property']
    det_path = os.path.join(d, 'detection.json')
    if only and mid not in only and prop not in only:
        if os.path.exists(det_path):
            rows.append(json.load(open(det_path)))
        continue
    sys.path.insert(0, os.path.join(VERIF, 'tools'))
    import props as P
    if prop not in P.PROPS:
        res = {'id': mid, 'property': prop, 'exit': None, 'verdict': 'property not claimed (not_applicable)', 'lines': []}
    else:
        scr = tempfile.mkdtemp(prefix='seedmx-')
        for it in ('src', 'benches'):
            shutil.copytree(os.path.join('/repo', it), os.path.join(scr, it))
        for it in ('Cargo.toml', 'Cargo.lock'):
            shutil.copy(os.path.join('/repo', it), scr)
        subprocess.run(['patch', '-p1', '-s', '-i', os.path.join(d, 'patch.diff')], cwd=scr, check=True)
        t0 = time.time()
        p = subprocess.run([os.path.join(VERIF, 'check'), prop, '--src-root', scr, '--no-evidence'], capture_output=True, text=True, cwd=VERIF)
        lines = [l for l in p.stdout.split('\n') if l.strip()][-6:]
        verdict = {0: 'MISSED (check passed)', 1: 'DETECTED', 2: 'UNDECIDED (exit 2)'}.get(p.returncode, f'exit {p.returncode}')
        concrete = any(l.startswith('VIOLATION') and 'no-failing-input-found' not in l for l in lines)
        res = {'id': mid, 'property': prop, 'exit': p.returncode, 'verdict': verdict, 'concrete_failing_input': concrete,
               'wall_s': round(time.time() - t0, 1), 'lines': [l[:400] for l in lines]}
        rp = os.path.join(VERIF, 'replays', f'{prop}-quick.json')
        if p.returncode == 1 and os.path.exists(rp):
            shutil.copy(rp, os.path.join(d, 'replay.json'))
        shutil.rmtree(scr, ignore_errors=True)
    json.dump(res, open(det_path, 'w'), indent=1)
    rows.append(res)
    print(mid, res['verdict'], flush=True)
with open(os.path.join(VERIF, 'seeded', 'MATRIX.md'), 'w') as f:
    f.write('# Seeded changes vs. the registered quick checks\n\n| change | property | verdict | concrete failing input | first failed obligation |\n|---|---|---|---|---|\n')
    for r in rows:
        ob = next((l for l in r['lines'] if l.startswith('failed obligation')), '')
        f.write(f"| {r['id']} | {r['property']} | {r['verdict']} | {r.get('concrete_failing_input', '')} | {ob[len('failed obligation: '):][:160]} |\n")
