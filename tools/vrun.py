"""Run one Verus unit: generate from template + /repo working tree, verify, run the vacuity
variant, classify every message.  Returns a dict; never prints VIOLATION itself."""
import os
import re
import sys
import json
import time
import shutil
import subprocess
import tempfile

HERE = os.path.dirname(os.path.abspath(__file__))
sys.path.insert(0, HERE)
import vgen

VERIF = os.path.dirname(HERE)
Z3WRAP = os.path.join(HERE, 'z3wrap.sh')

VERIFICATION_MSGS = (
    'postcondition not satisfied', 'precondition not satisfied', 'assertion failed',
    'possible arithmetic underflow/overflow', 'possible division by zero', 'index out of bounds',
    'invariant not satisfied', 'decreases not satisfied', 'recommendation not met',
    'possible bit shift', 'unreachable', 'loop invariant', 'cannot prove', 'failed precondition',
    'possible arithmetic', 'failed this postcondition', 'could not prove termination',
    'precondition of', 'may panic', 'assert_forall', 'ensure clause', 'not all errors may have been reported',
)
RESOURCE_MSGS = ('resource limit', 'rlimit', 'timed out', 'timeout')


def parse_errors(stderr):
    """Split Verus/rustc diagnostics into records {level, msg, file, line}."""
    recs = []
    cur = None
    for ln in stderr.split('\n'):
        m = re.match(r'^(error|warning|note)(\[[A-Z0-9]+\])?: (.*)$', ln)
        if m:
            cur = {'level': m.group(1), 'code': m.group(2), 'msg': m.group(3), 'line': None, 'text': ln + '\n', 'spans': []}
            recs.append(cur)
            continue
        if cur is not None:
            cur['text'] += ln + '\n'
            m2 = re.match(r'^\s*-->\s*(\S+):(\d+):(\d+)', ln)
            if m2:
                cur['spans'].append(int(m2.group(2)))
                if cur['line'] is None:
                    cur['line'] = int(m2.group(2))
            m3 = re.match(r'^\s*(\d+)\s*\|', ln)
            if m3 and int(m3.group(1)) not in cur['spans']:
                cur['spans'].append(int(m3.group(1)))
    return recs


def run_verus(path, timeout, threads=8, rlimit=None, plain=False):
    env = dict(os.environ)
    if plain:
        env.pop('VERUS_Z3_PATH', None)   # Verus' own Z3 options for nonlinear queries (better at inequalities)
    else:
        env['VERUS_Z3_PATH'] = Z3WRAP    # smt.arith.nl true for nonlinear queries (better at large identities)
    cmd = ['verus', path, '--output-json', '--time', '--num-threads', str(threads), '--multiple-errors', '20']
    if rlimit:
        cmd += ['--rlimit', str(rlimit)]
    t0 = time.time()
    import procgrp
    out, err, rc, to = procgrp.run(cmd, timeout, env=env, cwd=os.path.dirname(path))
    js = None
    try:
        js = json.loads(out)
    except Exception:
        pass
    return {'json': js, 'stderr': err, 'rc': rc, 'timeout': to, 'wall_s': time.time() - t0}


def fn_at_line(gen_text_lines, metas, line):
    for m in metas:
        a, b = m['gen_lines']
        if a <= line <= b:
            return m['obligation'], m
    # nearest preceding fn header (lemmas, spec fns)
    for i in range(min(line, len(gen_text_lines)) - 1, -1, -1):
        mm = re.search(r'\bfn\s+(\w+)', gen_text_lines[i])
        if mm and not gen_text_lines[i].strip().startswith('//'):
            return 'lemma :: ' + mm.group(1), None
    return 'unit', None


def classify(rec):
    msg = rec['msg'].lower()
    if rec['level'] != 'error':
        return 'info'
    if msg.startswith('aborting due to'):
        return 'info'
    if any(k in msg for k in RESOURCE_MSGS):
        return 'resource'
    if any(k in msg for k in VERIFICATION_MSGS):
        return 'verification'
    return 'tool'


def run_unit(template, src_root='/repo', workdir=None, timeout=600, threads=8, with_vacuity=True):
    unit = os.path.splitext(os.path.basename(template))[0]
    own = workdir is None
    workdir = workdir or tempfile.mkdtemp(prefix='verif-verus-')
    res = {'unit': unit, 'template': template, 'status': 'ok', 'reason': '', 'functions': [], 'failures': [],
           'extracted': [], 'literals': [], 'vacuity': None, 'wall_s': 0.0, 'solver_ms': 0,
           'verus_cmd': f'VERUS_Z3_PATH=tools/z3wrap.sh verus <generated {unit}.rs> --num-threads {threads}'}
    t0 = time.time()
    try:
        gen_path = os.path.join(workdir, unit + '.rs')
        try:
            metas, lits = vgen.generate(template, src_root, gen_path, vacuity=False)
        except vgen.GenError as e:
            res.update(status='undecided', reason=f'extraction: {e}')
            return res
        res['extracted'] = metas
        res['literals'] = lits
        plain = '//@plain-nl' in open(template).read()
        res['nl_config'] = "verus' own nonlinear options" if plain else 'tools/z3wrap.sh (smt.arith.nl)'
        r = run_verus(gen_path, timeout, threads, plain=plain)
        gen_lines = open(gen_path).read().split('\n')
        res['stderr_tail'] = r['stderr'][-6000:]
        if r['timeout']:
            res.update(status='undecided', reason=f'verus timed out after {timeout}s')
            return res
        js = r['json']
        if js and 'times-ms' in js and 'smt' in js['times-ms']:
            for mod in js['times-ms']['smt'].get('smt-run-module-times', []):
                for fb in mod.get('function-breakdown', []):
                    res['functions'].append({'name': fb['function'], 'mode': fb.get('mode:', fb.get('mode')),
                                             'success': fb['success'], 'time_us': fb.get('time-micros', 0)})
                    res['solver_ms'] += fb.get('time-micros', 0) / 1000.0
        recs = parse_errors(r['stderr'])
        if '//@dual-nl' in open(template).read() and any(classify(x) in ('verification', 'resource') for x in recs):
            # Every by(nonlinear_arith) assertion is an independent query; it is valid if EITHER Z3 configuration proves it.
            # Re-run with Verus' own nonlinear options and keep only the failures common to both runs.
            r2 = run_verus(gen_path, timeout, threads, rlimit=3, plain=True)
            recs2 = parse_errors(r2['stderr'])
            bad2 = {x['line'] for x in recs2 if classify(x) in ('verification', 'resource', 'tool')}
            nl_line = lambda ln: ln is not None and any('by(nonlinear_arith)' in t for t in gen_lines[max(0, ln - 1):ln + 1])
            kept = []
            for x in recs:
                if classify(x) in ('verification', 'resource') and nl_line(x['line']) and x['line'] not in bad2:
                    continue   # proved in the second configuration
                kept.append(x)
            res['dual_nl'] = {'first_run_messages': len(recs), 'kept_after_second_run': len(kept), 'second_run_wall_s': r2['wall_s']}
            recs = kept
            if not any(classify(x) in ('verification', 'resource', 'tool') for x in recs) and js is not None:
                vr0 = js.get('verification-results', {})
                vr0['verified'] = vr0.get('verified', 0) + vr0.get('errors', 0)
                vr0['errors'] = 0
        tool_errs = []
        for rec in recs:
            c = classify(rec)
            if c == 'info':
                continue
            line = rec['line']
            # prefer a span inside an extracted function or proof
            fname, meta = fn_at_line(gen_lines, metas, line) if line else ('unit', None)
            kind = 'other'
            ml = rec['msg'].lower()
            if 'postcondition' in ml:
                kind = 'postcondition'
                # span 0 is the ensures clause (maybe in the trait); find the function via later spans
                for sp in rec['spans'][1:]:
                    f2, m2 = fn_at_line(gen_lines, metas, sp)
                    if m2 is not None:
                        fname, meta = f2, m2
                        break
            elif 'precondition' in ml:
                kind = 'callee-precondition'
                for sp in rec['spans']:
                    f2, m2 = fn_at_line(gen_lines, metas, sp)
                    if m2 is not None:
                        fname, meta = f2, m2
                        break
            elif 'assertion failed' in ml:
                src_line = gen_lines[line - 1] if line and line <= len(gen_lines) else ''
                kind = 'panic-assert' if re.search(r'\bassert!\s*\(', src_line) else ('bits-lane' if '[bits]' in src_line else ('postcondition' if '[post]' in src_line else 'proof-hint'))
            elif 'overflow' in ml or 'index' in ml or 'division' in ml:
                kind = 'panic-arith'
            entry = {'class': c, 'kind': kind, 'function': fname, 'msg': rec['msg'], 'line': line,
                     'props': (meta or {}).get('props', []), 'text': rec['text'][-1500:]}
            if c == 'tool':
                tool_errs.append(entry)
            elif c == 'resource':
                res['failures'].append(entry)
            else:
                res['failures'].append(entry)
        if tool_errs:
            res.update(status='undecided', reason='verus rejected the generated file: ' + tool_errs[0]['msg'][:300])
            res['tool_errors'] = tool_errs[:5]
            return res
        if js is None:
            res.update(status='undecided', reason='verus produced no JSON (crash?) rc=%s' % r['rc'])
            return res
        vr = js.get('verification-results', {})
        res['verified'] = vr.get('verified', 0)
        res['errors'] = vr.get('errors', 0)
        if any(f['class'] == 'resource' for f in res['failures']):
            res.update(status='undecided', reason='solver resource limit')
        elif res['errors'] or res['failures']:
            res['status'] = 'fail'
        # ---- vacuity variant: assert(false) at the end of every extracted body must FAIL
        if with_vacuity and res['status'] == 'ok':
            vpath = os.path.join(workdir, unit + '_vac.rs')
            vmetas, _ = vgen.generate(template, src_root, vpath, vacuity=True)
            rv = run_verus(vpath, timeout, threads, plain=plain)
            vlines = open(vpath).read().split('\n')
            failed_probe = set()
            other = []
            for rec in parse_errors(rv['stderr']):
                if classify(rec) == 'info':
                    continue
                ln = rec['line']
                if ln and 'VACUITY-PROBE' in vlines[ln - 1]:
                    f2, _m = fn_at_line(vlines, vmetas, ln)
                    failed_probe.add(f2)
                else:
                    other.append(rec['msg'])
            expected = {m['obligation'] for m in vmetas if not m.get('assumed')}
            vac = {'probes': len(expected), 'probes_refuted': len(failed_probe & expected),
                   'vacuous': sorted(expected - failed_probe), 'other_messages': other[:5], 'wall_s': rv['wall_s']}
            res['vacuity'] = vac
            if rv['timeout']:
                res.update(status='undecided', reason='vacuity variant timed out')
            elif vac['vacuous']:
                res.update(status='undecided', reason='VACUOUS: assert(false) verified in ' + ', '.join(vac['vacuous']))
        return res
    finally:
        res['wall_s'] = time.time() - t0
        if own:
            shutil.rmtree(workdir, ignore_errors=True)


if __name__ == '__main__':
    import argparse
    ap = argparse.ArgumentParser()
    ap.add_argument('template')
    ap.add_argument('--src-root', default='/repo')
    ap.add_argument('--keep', default=None)
    a = ap.parse_args()
    if a.keep:
        os.makedirs(a.keep, exist_ok=True)
    r = run_unit(a.template, a.src_root, workdir=a.keep)
    r2 = dict(r)
    r2.pop('stderr_tail', None)
    r2['extracted'] = len(r['extracted'])
    r2['functions'] = f"{sum(1 for f in r['functions'] if f['success'])}/{len(r['functions'])} ok"
    print(json.dumps(r2, indent=1))
    if r['status'] != 'ok':
        print(r.get('stderr_tail', '')[-3000:])
