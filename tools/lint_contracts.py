#!/usr/bin/env python3
"""Cross-unit consistency: a callee that appears `mode=contract-only` (assumed) in one Verus unit must be PROVED in another unit
under the same contract: same trait declaration (with its requires/ensures), same impl-level spec functions, same //@contract
text.  Mechanical comparison of the templates (whitespace-normalised).  Exit 0 = consistent, 1 = drift (details printed)."""
import os, re, sys, glob
VDIR = os.path.join(os.path.dirname(os.path.dirname(os.path.abspath(__file__))), 'verus')


def load(path):
    out = []
    for ln in open(path).read().split('\n'):
        if ln.strip().startswith('//@include'):
            out.extend(load(os.path.join(VDIR, ln.strip().split()[1])))
        else:
            out.append(ln)
    return out


def norm(t):
    t = re.sub(r'//.*', '', t)
    return re.sub(r'\s+', ' ', t).strip()


def parse(path):
    lines = load(path)
    traits, entries = {}, []
    i = 0
    impl_hdr, impl_specs = None, []
    while i < len(lines):
        ln = lines[i]
        m = re.match(r'^pub trait (\w+)', ln)
        if m:
            j = i
            buf = []
            while not lines[j].startswith('}'):
                buf.append(lines[j]); j += 1
            traits[m.group(1)] = norm('\n'.join(buf))
            i = j + 1
            continue
        m = re.match(r'^impl\b(.*)\{\s*$', ln)
        if m:
            impl_hdr, impl_specs = norm(ln), []
        elif impl_hdr is not None and re.match(r'^\s*(open spec fn|type )', ln):
            impl_specs.append(ln)
            # multi-line spec fn bodies
            if ln.count('{') > ln.count('}'):
                j = i + 1
                depth = ln.count('{') - ln.count('}')
                while depth > 0:
                    impl_specs.append(lines[j]); depth += lines[j].count('{') - lines[j].count('}'); j += 1
                i = j
                continue
        st = ln.strip()
        if st.startswith('//@extract'):
            kv = dict((a, (c if b.startswith('"') else b)) for a, b, c in re.findall(r'(\w+)=("([^"]*)"|\S+)', st))
            contract, mode = [], None
            j = i + 1
            while lines[j].strip() != '//@end':
                s2 = lines[j].strip()
                if s2.startswith('//@contract'):
                    mode = 'c'
                elif s2.startswith('//@'):
                    mode = None
                elif mode == 'c':
                    contract.append(lines[j])
                j += 1
            entries.append({'unit': os.path.basename(path), 'impl': kv.get('impl'), 'fn': kv['fn'], 'mod': kv.get('mod'),
                            'assumed': kv.get('mode') == 'contract-only', 'contract': norm('\n'.join(contract)),
                            'specs': norm('\n'.join(impl_specs)), 'impl_hdr': impl_hdr})
            i = j
        if ln.startswith('}'):
            impl_hdr = None
        i += 1
    return traits, entries


def main():
    units = {}
    for p in sorted(glob.glob(os.path.join(VDIR, 'u_*.rs'))):
        units[os.path.basename(p)] = parse(p)
    problems, checked = [], 0
    for u, (traits, entries) in units.items():
        for e in entries:
            if not e['assumed']:
                continue
            provers = [(u2, e2, t2) for u2, (t2, es2) in units.items() for e2 in es2
                       if not e2['assumed'] and e2['impl'] == e['impl'] and e2['fn'] == e['fn'] and e2['mod'] == e['mod']]
            if not provers:
                problems.append(f"{u}: {e['impl']} :: {e['fn']} is assumed but proved in no unit")
                continue
            checked += 1
            ok = False
            why = ''
            for u2, e2, t2 in provers:
                tm = re.match(r'impl(?:<[^>]*>)? (\w+)', e['impl'] or '')
                tname = tm.group(1) if tm else None
                if tname and traits.get(tname) != t2.get(tname):
                    why = f'trait {tname} differs from {u2}'
                    continue
                if e['specs'] != e2['specs']:
                    why = f'impl-level spec functions differ from {u2}: `{e["specs"][:120]}` vs `{e2["specs"][:120]}`'
                    continue
                # an assumed contract may be WEAKER (empty) than the proved one, never different
                if e['contract'] and e['contract'] != e2['contract']:
                    why = f'//@contract differs from {u2}: `{e["contract"][:120]}` vs `{e2["contract"][:120]}`'
                    continue
                ok = True
                break
            if not ok:
                problems.append(f"{u}: {e['impl']} :: {e['fn']}: {why}")
    for p in problems:
        print('CONTRACT-DRIFT:', p)
    print(f'lint_contracts: {checked} assumed contracts compared with their proving unit, {len(problems)} problem(s)')
    return 1 if problems else 0


if __name__ == '__main__':
    sys.exit(main())
