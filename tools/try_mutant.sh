#!/bin/sh
# usage: tools/try_mutant.sh <patch.diff> <PROP> [PROP...]   -- runs checks against a scratch copy with the patch applied
set -e
patch="$1"; shift
d=$(mktemp -d /tmp/scrmut-XXXXXX)
cp -r /repo/src /repo/Cargo.toml /repo/Cargo.lock /repo/benches "$d"/
(cd "$d" && patch -p1 -s < "$patch")
for p in "$@"; do
  echo "== $p on $(basename $(dirname $patch))/$(basename $patch)"
  /verif/check "$p" --src-root "$d" --no-evidence 2>&1 | grep -v "^$" | tail -${TAILN:-6} || true
done
rm -rf "$d"
